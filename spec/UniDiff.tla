------------------------------ MODULE UniDiff ------------------------------
(* Unified diffs between two texts: what a diff means, how one is made from an edit script,
   and the apply / revert automaton (src/pytezos/protocol/diff.py: make_patch, apply_patch).
   Property C30: applying a diff of (a, b) to a yields b, applying it in reverse to b yields a.

   A text is a sequence of lines <<c, eol>>: c is the line content (an abstract letter of
   Alphabet), eol says whether the line ends with a newline; only the last line of a text
   may have eol = FALSE.  A patch is the flat sequence of the lines of the diff file:
       <<"from">>  <<"to">>                 the  --- / +++  file header
       <<"hdr", os, ol, ns, nl>>            @@ -os,ol +ns,nl @@   (a start counts from 1; when the
                                            length is 0 the start is the line *before* the hunk)
       <<"ctx", c>> <<"del", c>> <<"ins", c>>   ' ' / '-' / '+' lines
       <<"noeol">>                          "\ No newline at end of file": the preceding line has eol = FALSE

   Three formulations that TLC compares with each other (Leg A):
     * Render: a diff is produced from an edit script (keep / delete / insert path through
       the two texts; every such path, every shortest one, or one canonical shortest one)
       by grouping the changes with n lines of context;
     * Valid: the declarative meaning of "p is a diff from a to b" (hunk old sides are the
       claimed slices of a, new sides the claimed slices of b, everything between hunks is common);
     * the apply automaton, one action per patch line like apply_patch's loop
       (Header, Hunk, Line, NoEol, EndHunk, Finish), forward or in reverse.
   Mode "given" runs Valid and the automaton on patches produced by the implementation.
   (Making the diff is an action of its own, Make, so that TLC's workers share that work.) *)
EXTENDS Integers, Sequences, FiniteSets, TLC
CONSTANTS Alphabet,     \* line contents, 1..k
          MaxLines,     \* texts have at most this many lines
          Contexts,     \* context sizes
          Mode,         \* "canon" | "min" | "all": which edit scripts;  "given": patches from Given
          AllBelow,     \* pairs of texts of at most this many lines each use every edit script whatever the mode
          CanonA,       \* TRUE: the old text uses its letters in first-occurrence order (renaming symmetry)
          Given         \* set of <<id, a, b, n, patch>>, ids from 1

(* ---------------- texts ---------------- *)
TextsOfLen(k) == IF k = 0 THEN {<<>>}
                 ELSE {[j \in 1..k |-> <<w[j], (j < k) \/ e>>] : w \in [1..k -> Alphabet], e \in BOOLEAN}
Texts == UNION {TextsOfLen(k) : k \in 0..MaxLines}
MaxOf(S) == IF S = {} THEN 0 ELSE CHOOSE x \in S : \A y \in S : y <= x
IsCanon(t) == \A j \in DOMAIN t : t[j][1] <= 1 + MaxOf({t[k][1] : k \in 1..j-1})
WellFormed(t) == \A j \in DOMAIN t : j < Len(t) => t[j][2]

(* ---------------- edit scripts: monotone paths, "k" only where the lines are equal ---------------- *)
RECURSIVE Scripts(_, _, _, _)
Scripts(a, b, p, q) ==
  IF p > Len(a) /\ q > Len(b) THEN {<<>>}
  ELSE LET K == IF p <= Len(a) /\ q <= Len(b) /\ a[p] = b[q]
                THEN LET r == Scripts(a, b, p + 1, q + 1) IN {<<"k">> \o s : s \in r} ELSE {}
           D == IF p <= Len(a) THEN LET r == Scripts(a, b, p + 1, q) IN {<<"d">> \o s : s \in r} ELSE {}
           I == IF q <= Len(b) THEN LET r == Scripts(a, b, p, q + 1) IN {<<"i">> \o s : s \in r} ELSE {}
       IN K \cup D \cup I
ScriptSet(a, b) ==
  LET all == Scripts(a, b, 1, 1)
      m == CHOOSE l \in {Len(s) : s \in all} : \A s \in all : l <= Len(s)
      shortest == {s \in all : Len(s) = m}
  IN CASE Mode = "all" \/ (Len(a) <= AllBelow /\ Len(b) <= AllBelow) -> all
       [] Mode = "min" -> shortest
       [] OTHER -> {CHOOSE s \in shortest : TRUE}

(* ---------------- a script and a context size give a patch ---------------- *)
OldOps == {"k", "d"}
NewOps == {"k", "i"}
PA(s, k) == 1 + Cardinality({j \in 1..k-1 : s[j] \in OldOps})      \* old line number op k looks at
PB(s, k) == 1 + Cardinality({j \in 1..k-1 : s[j] \in NewOps})
Inc(s, n, k) == s[k] # "k" \/ \E j \in DOMAIN s : s[j] # "k" /\ j - k <= n /\ k - j <= n
RECURSIVE HunkEnd(_, _, _)
HunkEnd(s, n, k) == IF k < Len(s) /\ Inc(s, n, k + 1) THEN HunkEnd(s, n, k + 1) ELSE k
OpLine(s, a, b, k) ==
  LET ln == IF s[k] = "i" THEN b[PB(s, k)] ELSE a[PA(s, k)]
      tag == IF s[k] = "k" THEN "ctx" ELSE IF s[k] = "d" THEN "del" ELSE "ins"
  IN IF ln[2] THEN << <<tag, ln[1]>> >> ELSE << <<tag, ln[1]>>, <<"noeol">> >>
RECURSIVE BodyOf(_, _, _, _, _)
BodyOf(s, a, b, k, hi) == IF k > hi THEN <<>> ELSE LET r == BodyOf(s, a, b, k + 1, hi) IN OpLine(s, a, b, k) \o r
RECURSIVE Hunks(_, _, _, _, _)
Hunks(s, a, b, n, k) ==
  IF k > Len(s) THEN <<>>
  ELSE IF ~Inc(s, n, k) THEN Hunks(s, a, b, n, k + 1)
  ELSE LET hi == HunkEnd(s, n, k)
           ol == Cardinality({j \in k..hi : s[j] \in OldOps})
           nl == Cardinality({j \in k..hi : s[j] \in NewOps})
           os == IF ol = 0 THEN PA(s, k) - 1 ELSE PA(s, k)
           ns == IF nl = 0 THEN PB(s, k) - 1 ELSE PB(s, k)
           r == Hunks(s, a, b, n, hi + 1)
       IN << <<"hdr", os, ol, ns, nl>> >> \o BodyOf(s, a, b, k, hi) \o r
Render(s, a, b, n) == LET hs == Hunks(s, a, b, n, 1) IN IF Len(hs) = 0 THEN <<>> ELSE << <<"from">>, <<"to">> >> \o hs

(* ---------------- what "p is a diff from a to b" means ---------------- *)
BodyTags == {"ctx", "del", "ins"}
H0(p) == IF Len(p) >= 2 /\ p[1][1] = "from" /\ p[2][1] = "to" THEN 2 ELSE 0
Shape(p) == \/ Len(p) = 0
            \/ /\ Len(p) > H0(p) /\ p[H0(p) + 1][1] = "hdr"
               /\ \A k \in H0(p) + 1 .. Len(p) :
                     /\ p[k][1] \in BodyTags \cup {"hdr", "noeol"}
                     /\ p[k][1] = "noeol" => p[k - 1][1] \in BodyTags
HdrIdx(p) == {k \in DOMAIN p : p[k][1] = "hdr"}
NextHdr(p, h) == LET later == {k \in HdrIdx(p) : k > h} IN
                 IF later = {} THEN Len(p) + 1 ELSE CHOOSE k \in later : \A j \in later : k <= j
RECURSIVE Fold(_, _, _)     \* body lines k..hi as <<tag, <<c, eol>>>>, markers folded into eol
Fold(p, k, hi) ==
  IF k > hi THEN <<>>
  ELSE IF k < hi /\ p[k + 1][1] = "noeol" THEN LET r == Fold(p, k + 2, hi) IN << <<p[k][1], <<p[k][2], FALSE>>>> >> \o r
  ELSE LET r == Fold(p, k + 1, hi) IN << <<p[k][1], <<p[k][2], TRUE>>>> >> \o r
RECURSIVE Side(_, _)        \* the lines of a folded body that are not `drop`-tagged
Side(body, drop) == IF Len(body) = 0 THEN <<>>
                    ELSE LET r == Side(Tail(body), drop) IN IF Head(body)[1] = drop THEN r ELSE <<Head(body)[2]>> \o r
First(st, len) == IF len = 0 THEN st + 1 ELSE st      \* index of the first line of the slice a header names
Slice(t, from, len) == IF from >= 1 /\ from + len - 1 <= Len(t) THEN <<TRUE, SubSeq(t, from, from + len - 1)>> ELSE <<FALSE, <<>>>>
Valid(p, a, b) ==
  /\ Shape(p)
  /\ LET H == HdrIdx(p)
         O1(h) == First(p[h][2], p[h][3])
         N1(h) == First(p[h][4], p[h][5])
         OE(h) == O1(h) + p[h][3]           \* first old line after the hunk
         NE(h) == N1(h) + p[h][5]
     IN /\ H = {} => a = b
        /\ \A h \in H :
              LET body == Fold(p, h + 1, NextHdr(p, h) - 1)
                  old == Side(body, "ins")
                  new == Side(body, "del")
                  nx == NextHdr(p, h)
              IN /\ Len(old) = p[h][3] /\ Len(new) = p[h][5]
                 /\ Slice(a, O1(h), p[h][3]) = <<TRUE, old>>
                 /\ Slice(b, N1(h), p[h][5]) = <<TRUE, new>>
                 /\ IF h = H0(p) + 1                        \* before the first hunk
                    THEN O1(h) = N1(h) /\ SubSeq(a, 1, O1(h) - 1) = SubSeq(b, 1, N1(h) - 1)
                    ELSE TRUE
                 /\ IF nx > Len(p)                          \* after the last hunk
                    THEN Len(a) - OE(h) = Len(b) - NE(h) /\ SubSeq(a, OE(h), Len(a)) = SubSeq(b, NE(h), Len(b))
                    ELSE /\ O1(nx) >= OE(h) /\ O1(nx) - OE(h) = N1(nx) - NE(h)     \* between two hunks
                         /\ O1(nx) - 1 <= Len(a) /\ N1(nx) - 1 <= Len(b)
                         /\ SubSeq(a, OE(h), O1(nx) - 1) = SubSeq(b, NE(h), N1(nx) - 1)

(* ---------------- the apply automaton ---------------- *)
VARIABLES a, b, n, rev, patch, gi,      \* the input, fixed after Pick / Make
          pc, i, sl, target, err
input == <<a, b, n, rev, patch, gi>>
vars == <<a, b, n, rev, patch, gi, pc, i, sl, target, err>>

Src == IF rev THEN b ELSE a
Dst == IF rev THEN a ELSE b
Mine == IF rev THEN "del" ELSE "ins"       \* lines that exist only in the result

\* The input is picked by the first action, not by Init: TLC handles a large set of successor states
\* much better than a large set of initial states.
Init == /\ a = <<>> /\ b = <<>> /\ n = 0 /\ rev = FALSE /\ patch = <<>> /\ gi = 0
        /\ pc = "pick" /\ i = 1 /\ sl = 0 /\ target = <<>> /\ err = ""
Pick == /\ pc = "pick"
        /\ \/ /\ Mode # "given"
              /\ a' \in (IF CanonA THEN {t \in Texts : IsCanon(t)} ELSE Texts)
              /\ b' \in Texts /\ n' \in Contexts
              /\ pc' = "make" /\ UNCHANGED <<rev, patch, gi>>
           \/ /\ Mode = "given"
              /\ \E g \in Given : gi' = g[1] /\ a' = g[2] /\ b' = g[3] /\ n' = g[4] /\ patch' = g[5]
              /\ rev' \in BOOLEAN /\ pc' = "header"
        /\ UNCHANGED <<i, sl, target, err>>

\* make_patch: some edit script of the chosen family, grouped with n lines of context; then the direction is chosen
Make == /\ pc = "make"
        /\ \E s \in ScriptSet(a, b) : patch' = Render(s, a, b, n)
        /\ rev' \in BOOLEAN
        /\ pc' = "header"
        /\ UNCHANGED <<a, b, n, gi, i, sl, target, err>>

Fail(e) == pc' = "error" /\ err' = e /\ UNCHANGED <<i, sl, target>>
IsBody(k) == k <= Len(patch) /\ patch[k][1] \in BodyTags
MarkerAt(k) == k <= Len(patch) /\ patch[k][1] = "noeol"

Header == /\ pc = "header"
          /\ IF i <= Len(patch) /\ patch[i][1] \in {"from", "to"} THEN i' = i + 1 /\ pc' = pc ELSE pc' = "hunk" /\ i' = i
          /\ UNCHANGED <<input, sl, target, err>>
Hunk == /\ pc = "hunk" /\ i <= Len(patch)
        /\ IF patch[i][1] # "hdr" THEN Fail("hunk header expected")
           ELSE LET h == patch[i]
                    start == IF rev THEN h[4] ELSE h[2]
                    len == IF rev THEN h[5] ELSE h[3]
                    l == IF len = 0 THEN start ELSE start - 1      \* lines of the source before the hunk
                IN IF l < sl \/ l > Len(Src) THEN Fail("bad line number")
                   ELSE /\ target' = target \o SubSeq(Src, sl + 1, l)
                        /\ sl' = l /\ i' = i + 1 /\ pc' = "body" /\ UNCHANGED err
        /\ UNCHANGED input
Consume(eol, step) ==
  LET tag == patch[i][1]
      ln == <<patch[i][2], eol>>
  IN IF tag = Mine THEN target' = Append(target, ln) /\ i' = i + step /\ UNCHANGED <<sl, pc, err>>
     ELSE IF sl + 1 > Len(Src) \/ Src[sl + 1] # ln THEN Fail("source line differs")
     ELSE /\ sl' = sl + 1 /\ i' = i + step /\ UNCHANGED <<pc, err>>
          /\ target' = IF tag = "ctx" THEN Append(target, ln) ELSE target
Line == pc = "body" /\ IsBody(i) /\ ~MarkerAt(i + 1) /\ Consume(TRUE, 1) /\ UNCHANGED input
NoEol == pc = "body" /\ IsBody(i) /\ MarkerAt(i + 1) /\ Consume(FALSE, 2) /\ UNCHANGED input
EndHunk == /\ pc = "body" /\ ~IsBody(i)
           /\ IF i > Len(patch) \/ patch[i][1] = "hdr" THEN pc' = "hunk" /\ UNCHANGED <<i, sl, target, err>>
              ELSE Fail("unexpected line in hunk")
           /\ UNCHANGED input
Finish == /\ pc = "hunk" /\ i > Len(patch)
          /\ target' = target \o SubSeq(Src, sl + 1, Len(Src)) /\ sl' = Len(Src) /\ pc' = "done"
          /\ UNCHANGED <<input, i, err>>
Next == Pick \/ Make \/ Header \/ Hunk \/ Line \/ NoEol \/ EndHunk \/ Finish
Spec == Init /\ [][Next]_vars

(* ---------------- C30 ---------------- *)
ApplyRevertExact == pc = "done" => target = Dst
NeverStuck == pc # "error"
RenderedIsValid == pc = "header" /\ i = 1 => Valid(patch, a, b)
TextsWellFormed == WellFormed(a) /\ WellFormed(b) /\ WellFormed(target)
Progress == sl <= Len(Src) /\ i <= Len(patch) + 1
\* Leg B export (enumerating modes): one line per completed run
EmitDone == Mode # "given" /\ pc = "done" => PrintT(<<"OUT", a, b, n, rev, patch, target>>)
\* Mode "given": verdict per implementation patch and direction, the run continues after a reject
GivenValid == Mode = "given" /\ pc = "header" /\ i = 1 /\ ~rev /\ ~Valid(patch, a, b)
                 => PrintT(<<"REJECT", gi, rev, "not a valid diff from a to b", patch>>)
GivenVerdict == Mode = "given" /\ pc \in {"done", "error"} =>
                  IF pc = "done" /\ target = Dst THEN PrintT(<<"OUT", gi, rev>>)
                  ELSE PrintT(<<"REJECT", gi, rev, IF pc = "error" THEN err ELSE "wrong result", target>>)
=============================================================================
