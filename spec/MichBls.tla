------------------------------ MODULE MichBls ------------------------------
(* BLS12-381 instructions of Michelson in the exponent model (C21): G1 and G2 are cyclic of
   prime order r, so every point is k.G for a unique exponent k in 0..r-1 (0 = the point at
   infinity), and Fr is the integers modulo r.  ADD / NEG / MUL / INT become modular
   arithmetic on exponents (BigInt limb integers), and PAIRING_CHECK of ((a1.G1, b1.G2), ..)
   holds iff  a1*b1 + .. = 0 (mod r)  by bilinearity.  The harness interprets exponents as
   real curve points (py_ecc scalar multiplication + own serialiser). *)
EXTENDS BigInt, TLC
CONSTANTS R,            \* the group order as a limb integer
          Cases,        \* set of <<op, ta, tb>>
          ValsOf(_),    \* kind -> set of limb integers: "pt" exponents of points, "fr" field elements, "int" / "nat" integers
          PairLists     \* set of sequences of <<a, b>> exponent pairs
Mod(x) == EDiv(x, R)[2]                     \* canonical representative in 0..r-1
AddM(x, y) == Mod(Add(x, y))
NegM(x) == Mod(Neg(x))
MulM(x, y) == Mod(Mul(x, y))
RECURSIVE SumProd(_)
SumProd(l) == IF l = <<>> THEN Zero ELSE LET r == SumProd(Tail(l)) IN AddM(MulM(Head(l)[1], Head(l)[2]), r)

Compute(op, x, y) ==
  CASE op \in {"ADD_G1", "ADD_G2", "ADD_FR"} -> AddM(x, y)
    [] op \in {"NEG_G1", "NEG_G2", "NEG_FR"} -> NegM(x)
    [] op \in {"MUL_G1", "MUL_G2", "MUL_FR", "MUL_INT_FR", "MUL_NAT_FR", "MUL_FR_INT", "MUL_FR_NAT"} -> MulM(x, y)
    [] op = "INT" -> Mod(x)

VARIABLES case, x, y, z, pl, res
vars == <<case, x, y, z, pl, res>>
Init == /\ case \in Cases
        /\ x \in ValsOf(case[2])
        /\ y \in (IF case[3] = "-" THEN {Zero} ELSE ValsOf(case[3]))
        /\ z \in (IF case[1] \in {"ADD_G1", "MUL_G1"} THEN ValsOf("pt") ELSE {Zero})
        /\ pl \in (IF case[1] = "PAIRING_CHECK" THEN PairLists ELSE {<<>>})
        /\ res = (IF case[1] = "PAIRING_CHECK" THEN <<"bool", SumProd(pl) = Zero>> ELSE <<"exp", Compute(case[1], x, y)>>)
Next == UNCHANGED vars
Spec == Init /\ [][Next]_vars

op == case[1]
InRange == res[1] = "exp" => ~IsNeg(res[2]) /\ Cmp(res[2], R) < 0
Identity == op \in {"ADD_G1", "ADD_G2", "ADD_FR"} => AddM(x, Zero) = Mod(x) /\ (y = Zero => res[2] = Mod(x))
Inverse == op \in {"NEG_G1", "NEG_G2", "NEG_FR"} => AddM(x, res[2]) = Zero
Commutative == op \in {"ADD_G1", "ADD_G2", "ADD_FR"} => res[2] = AddM(y, x)
Associative == op = "ADD_G1" => AddM(AddM(x, y), z) = AddM(x, AddM(y, z))
Distributive == op = "MUL_G1" => MulM(AddM(x, z), y) = AddM(MulM(x, y), MulM(z, y))        \* (x.G + z.G) * y = x.G*y + z.G*y
MulOne == op \in {"MUL_G1", "MUL_G2", "MUL_FR"} /\ Mod(y) = FromInt(1) => res[2] = Mod(x)
MulOrder == op \in {"MUL_G1", "MUL_G2"} /\ Mod(y) = Zero => res[2] = Zero                   \* r.P = infinity
PairingBilinear == op = "PAIRING_CHECK" /\ Len(pl) = 2 /\ pl[1] = <<pl[2][1], NegM(pl[2][2])>> => res[2]  \* e(aG, bH) e(aG, -bH) = 1
Emit == PrintT(<<"OUT", case, x, y, pl, res>>)
=============================================================================
