---------------------------- MODULE BigMapLayer ----------------------------
(* A big_map during one contract execution (C15): a local layer of updates and removals
   over the on-chain contents, like src/pytezos/michelson/types/big_map.py keeps it
   (items / removed_keys / ptr), run against a flat dictionary.  Values are 1..MaxVal,
   0 stands for "no binding".  local[k]: -1 removed, 0 no local entry, v > 0 local binding.

   mode "existing": the storage holds the id of an on-chain big_map with contents `chain`;
   mode "fresh":    the storage holds a literal (its bindings start in the local layer),
                    nothing is on chain.
   mode "copy":     the big_map arrives by id in the parameter (contents `chain` belong to another
                    owner): the contract works on a temporary copy and stores it, so the diff must
                    say "copy <source>" under a new id and the source's contents stay what they were.
   At the end the execution emits a lazy storage diff; the property is stated on the final
   dictionary `flat`: every observation equals the dictionary's answer, and
   Apply(diff, chain) = flat  (checked on the implementation's diff by the harness). *)
EXTENDS Integers, Sequences, TLC
CONSTANTS Keys, MaxVal, MaxOps, Inits      \* Inits: set of <<mode, chain, literal>> (functions Keys -> 0..MaxVal)
VARIABLES mode, chain, lit, local, flat, obs, want, hist
vars == <<mode, chain, lit, local, flat, obs, want, hist>>

View(k) == IF local[k] = -1 THEN 0 ELSE IF local[k] > 0 THEN local[k] ELSE chain[k]

Init == \E i \in Inits :
          /\ mode = i[1] /\ chain = i[2] /\ lit = i[3] /\ local = i[3]
          /\ flat = [k \in Keys |-> IF i[3][k] > 0 THEN i[3][k] ELSE i[2][k]]
          /\ obs = <<>> /\ want = <<>> /\ hist = <<>>

Step(op) == Len(hist) < MaxOps /\ hist' = Append(hist, op) /\ UNCHANGED <<mode, chain, lit>>
Get(k) == /\ Step(<<"get", k>>)
          /\ obs' = Append(obs, <<"get", View(k)>>) /\ want' = Append(want, <<"get", flat[k]>>)
          /\ UNCHANGED <<local, flat>>
Mem(k) == /\ Step(<<"mem", k>>)
          /\ obs' = Append(obs, <<"mem", View(k) # 0>>) /\ want' = Append(want, <<"mem", flat[k] # 0>>)
          /\ UNCHANGED <<local, flat>>
NewLocal(k, v) == IF v > 0 THEN [local EXCEPT ![k] = v]
                  ELSE IF View(k) # 0 THEN [local EXCEPT ![k] = -1] ELSE local      \* removing an absent key changes nothing
Upd(k, v) == /\ Step(<<"upd", k, v>>)
             /\ local' = NewLocal(k, v) /\ flat' = [flat EXCEPT ![k] = v]
             /\ UNCHANGED <<obs, want>>
GetUpd(k, v) == /\ Step(<<"gau", k, v>>)
                /\ obs' = Append(obs, <<"get", View(k)>>) /\ want' = Append(want, <<"get", flat[k]>>)
                /\ local' = NewLocal(k, v) /\ flat' = [flat EXCEPT ![k] = v]
DoGet == \E k \in Keys : Get(k)
DoMem == \E k \in Keys : Mem(k)
DoUpd == \E k \in Keys, v \in 0..MaxVal : Upd(k, v)
DoGetUpd == \E k \in Keys, v \in 0..MaxVal : GetUpd(k, v)
Next == DoGet \/ DoMem \/ DoUpd \/ DoGetUpd
Spec == Init /\ [][Next]_vars

Layered == \A k \in Keys : View(k) = flat[k]                \* the layered view is the dictionary
ObsOK == obs = want
\* the diff the local layer stands for, applied to the chain contents, is the dictionary
DiffOf(k) == IF local[k] = 0 THEN "keep" ELSE IF local[k] = -1 THEN "remove" ELSE "set"
ApplyDiff == \A k \in Keys : flat[k] = (CASE DiffOf(k) = "keep" -> chain[k] [] DiffOf(k) = "remove" -> 0 [] OTHER -> local[k])
\* what the emitted diff must say about its origin (compared with the implementation's diff by the harness)
DiffAction == CASE mode = "existing" -> "update" [] mode = "fresh" -> "alloc" [] OTHER -> "copy"
DiffNeedsSource == mode = "copy"
DiffKeepsId == mode = "existing"           \* only an in-place update keeps the on-chain id
ModeOK == mode \in {"existing", "fresh", "copy"} /\ (DiffNeedsSource => ~DiffKeepsId)
FreshHasNothingOnChain == mode = "fresh" => \A k \in Keys : chain[k] = 0
Emit == PrintT(<<"OUT", mode, chain, lit, hist, obs, flat, <<DiffAction, DiffNeedsSource, DiffKeepsId>> >>)
=============================================================================
