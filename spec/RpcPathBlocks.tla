---------------------------- MODULE RpcPathBlocks ----------------------------
(* BlocksQuery.__getitem__ (src/pytezos/rpc/protocol.py) and the BlockSliceQuery it returns for slices
   (src/pytezos/rpc/search.py: __call__, __getitem__, get_range).  Growth of the specification.

   The node has blocks of level 0..H; `head~k`, `genesis`, a level, a block hash are block ids.
   blocks[x]:   x >= 0 or a string   -> the block query .../blocks/<x>, no request
                x < 0                -> offset from the head: one request for the head's header, block H + x
                a slice start:stop   -> a block range (start int, or a block id that is resolved by one header request)
   range():     asks for the header of `stop`, then GET .../blocks?length=..&head=<hash of stop>
   range[i], range.get_range(): resolve both ends to levels.
   One action per request of the code. *)
EXTENDS Integers, Sequences, FiniteSets, TLC
CONSTANTS MaxH,        \* head level is 0..MaxH
          Ints,        \* integer arguments tried (levels and negative offsets)
          StrIds,      \* string block ids tried: <<"head", k>> (head~k), <<"genesis">>, <<"hash", n>>
          Idx,         \* indices tried on a range
          AsCoded      \* TRUE: the two deviations below are modelled as the code has them; FALSE: as intended (to try a patch)
VARIABLES H,           \* level of the node's head
          arg,         \* <<"id", id>> | <<"slice", start, stop>>    (id: <<"lvl", n>> or a string id; <<"none">> = omitted)
          op,          \* what is done with a range: <<"call">> | <<"range">> | <<"idx", i>>;  <<"none">> for a single block
          pc, sstart, sstop, lo, hi, stopLevel,
          log,         \* requests: <<"hdr", id>> = GET .../blocks/<id>/header ; <<"list", length, level of head param>>
          res          \* <<"block", id>> | <<"hashes", seq of levels>> | <<"range", lo, hi>> | <<"error", kind>> | <<"none">>
vars == <<H, arg, op, pc, sstart, sstop, lo, hi, stopLevel, log, res>>

Max(a, b) == IF a > b THEN a ELSE b
Min(a, b) == IF a < b THEN a ELSE b
None == <<"none">>
Head0 == <<"head", 0>>
IsInt(id) == id[1] = "lvl"
\* ---- the node: which level a block id denotes, -1 = no such block (404)
Resolve(id, h) == CASE id[1] = "head" -> IF h - id[2] >= 0 THEN h - id[2] ELSE -1
                    [] id[1] = "genesis" -> 0
                    [] id[1] = "lvl" -> IF id[2] >= 0 /\ id[2] <= h THEN id[2] ELSE -1
                    [] id[1] = "hash" -> IF id[2] <= h THEN id[2] ELSE -1
\* GET .../blocks?length=L&head=<hash of level s>: L blocks back from s, not beyond genesis
NodeList(s, L) == [i \in 1..Max(0, Min(L, s + 1)) |-> s - i + 1]

IntIds == {<<"lvl", n>> : n \in Ints}
Starts == {None} \cup IntIds \cup {<<"head", 1>>, <<"hash", 1>>}
Stops == {None} \cup IntIds \cup StrIds
Call == <<"call">>
Range == <<"range">>
Ops == {Call, Range} \cup {<<"idx", i>> : i \in Idx}
\* `stop or 'head'`
EffStop(stop) == IF stop = None \/ stop = <<"lvl", 0>> THEN Head0 ELSE stop
\* the level range a slice stands for: negative start = offset from the head (the documented meaning of a negative
\* int); start 0 is left out of the declarative statement
DeclLo(start, h) == IF start[2] >= 1 THEN start[2] ELSE Max(0, h + start[2])
DeclHi(stop, h) == LET e == EffStop(stop) IN IF IsInt(e) /\ e[2] < 0 THEN Max(0, h + e[2]) ELSE Resolve(e, h)

\* first level of the range as get_range has it (a start at level 0 is taken as level 1); only used to bound the universe
FirstLevel(a, h) == LET l == IF IsInt(a) THEN (IF a[2] < 0 THEN Max(0, h + a[2]) ELSE a[2]) ELSE Resolve(a, h) IN IF l = 0 /\ ~(IsInt(a) /\ a[2] < 0) THEN 1 ELSE l
Init == /\ H \in 0..MaxH /\ pc = "getitem" /\ log = <<>> /\ res = None
        /\ sstart = 0 /\ sstop = None /\ lo = -1 /\ hi = -1 /\ stopLevel = -1
        /\ \/ arg \in {<<"id", id>> : id \in IntIds \cup StrIds} /\ op = None
           \/ /\ arg \in {<<"slice", a, b>> : a \in Starts, b \in Stops} /\ op \in Ops
              \* empty ranges are outside the compared domain (what the node answers to length <= 0 is not modelled),
              \* and indices stay inside the range
              /\ LET a == arg[2] b == arg[3] IN
                   (a # None /\ DeclHi(b, H) >= 0 /\ (IsInt(a) \/ Resolve(a, H) >= 0))
                     => /\ FirstLevel(a, H) <= DeclHi(b, H)
                        /\ op[1] = "idx" => (IF op[2] >= 0 THEN op[2] ELSE -op[2] - 1) <= DeclHi(b, H) - FirstLevel(a, H)
Hdr(id) == <<"hdr", id>>
Fail(kind) == /\ res' = <<"error", kind>> /\ pc' = "done"

\* ---- BlocksQuery.__getitem__
GetBlock ==
  /\ pc = "getitem" /\ arg[1] = "id"
  /\ IF IsInt(arg[2]) /\ arg[2][2] < 0
     THEN /\ log' = Append(log, Hdr(Head0))                 \* head_level = self._get_block('head').level()
          /\ res' = <<"block", <<"lvl", Max(0, H + arg[2][2])>> >>
     ELSE /\ res' = <<"block", arg[2]>> /\ UNCHANGED log
  /\ pc' = "done" /\ UNCHANGED <<H, arg, op, sstart, sstop, lo, hi, stopLevel>>
MakeSlice ==
  /\ pc = "getitem" /\ arg[1] = "slice"
  /\ LET a == arg[2] IN
     IF a = None THEN Fail("NotImplementedError") /\ UNCHANGED <<log, sstart, sstop>>
     ELSE IF IsInt(a) THEN /\ sstart' = a[2] /\ sstop' = EffStop(arg[3]) /\ pc' = "slice" /\ UNCHANGED <<log, res>>
     ELSE /\ log' = Append(log, Hdr(a))                     \* the start block's level is asked from the node
          /\ IF Resolve(a, H) < 0 THEN Fail("RpcError") /\ UNCHANGED <<sstart, sstop>>
             ELSE /\ sstart' = Resolve(a, H) /\ sstop' = EffStop(arg[3]) /\ pc' = "slice" /\ UNCHANGED res
  /\ UNCHANGED <<H, arg, op, lo, hi, stopLevel>>

\* ---- BlockSliceQuery.__call__
\* DEVIATION (as coded): the stop block is addressed with RpcQuery._getitem, which has no rule for negative integers, so a
\* negative stop (an offset from the head for blocks[..] and for get_range) is sent to the node as the level "-1".
NegStop == IsInt(sstop) /\ sstop[2] < 0
CallStopOffset ==        \* intended: a negative stop is an offset from the head here too
  /\ ~AsCoded /\ pc = "slice" /\ op = Call /\ NegStop
  /\ log' = Append(log, Hdr(Head0)) /\ sstop' = <<"lvl", Max(0, H + sstop[2])>>
  /\ UNCHANGED <<H, arg, op, pc, sstart, lo, hi, stopLevel, res>>
CallHeader ==
  /\ pc = "slice" /\ op = Call /\ (AsCoded \/ ~NegStop)
  /\ log' = Append(log, Hdr(sstop))
  /\ IF Resolve(sstop, H) < 0 THEN Fail("RpcError") /\ UNCHANGED stopLevel
     ELSE stopLevel' = Resolve(sstop, H) /\ pc' = "call2" /\ UNCHANGED res
  /\ UNCHANGED <<H, arg, op, sstart, sstop, lo, hi>>
\* DEVIATION (as coded): for a negative start the length is |start| counted back from `stop`, while get_range / [] /
\* find_operation take the same slice as the levels (head + start)..stop: one block more, and relative to the head.
CallLengthAsCoded == IF sstart < 0 THEN -sstart ELSE stopLevel - sstart + 1
CallLo ==                \* intended: the first level of the range is head + start, as in get_range
  /\ ~AsCoded /\ pc = "call2" /\ sstart < 0
  /\ log' = Append(log, Hdr(Head0)) /\ lo' = Max(0, H + sstart) /\ pc' = "call3"
  /\ UNCHANGED <<H, arg, op, sstart, sstop, hi, stopLevel, res>>
CallList ==
  /\ (pc = "call2" /\ (AsCoded \/ sstart >= 0)) \/ pc = "call3"
  /\ LET L == Min(stopLevel, IF pc = "call3" THEN stopLevel - lo + 1 ELSE CallLengthAsCoded) IN
       /\ log' = Append(log, <<"list", L, stopLevel>>)
       /\ res' = <<"hashes", NodeList(stopLevel, L)>>
  /\ pc' = "done" /\ UNCHANGED <<H, arg, op, sstart, sstop, lo, hi, stopLevel>>

\* ---- BlockSliceQuery.get_range (also the first half of __getitem__)
RangeLo ==
  /\ pc = "slice" /\ op # Call
  /\ IF sstart < 0 THEN log' = Append(log, Hdr(Head0)) /\ lo' = Max(0, H + sstart)
     ELSE lo' = (IF sstart = 0 THEN 1 ELSE sstart) /\ UNCHANGED log
  /\ pc' = "range2" /\ UNCHANGED <<H, arg, op, sstart, sstop, hi, stopLevel, res>>
RangeHi ==
  /\ pc = "range2"
  /\ IF IsInt(sstop)
     THEN IF sstop[2] < 0 THEN log' = Append(log, Hdr(Head0)) /\ hi' = Max(0, H + sstop[2]) /\ pc' = "range3" /\ UNCHANGED res
          ELSE hi' = sstop[2] /\ pc' = "range3" /\ UNCHANGED <<log, res>>     \* sstop[2] = 0 cannot occur (`stop or 'head'`)
     ELSE /\ log' = Append(log, Hdr(sstop))
          /\ IF Resolve(sstop, H) < 0 THEN Fail("RpcError") /\ UNCHANGED hi
             ELSE hi' = Resolve(sstop, H) /\ pc' = "range3" /\ UNCHANGED res
  /\ UNCHANGED <<H, arg, op, sstart, sstop, lo, stopLevel>>
RangeDone ==
  /\ pc = "range3"
  /\ res' = (IF op = Range THEN <<"range", lo, hi>>
             ELSE <<"block", <<"lvl", IF op[2] >= 0 THEN lo + op[2] ELSE hi + op[2] + 1>> >>)
  /\ pc' = "done" /\ UNCHANGED <<H, arg, op, sstart, sstop, lo, hi, stopLevel, log>>
Next == GetBlock \/ MakeSlice \/ CallStopOffset \/ CallHeader \/ CallLo \/ CallList \/ RangeLo \/ RangeHi \/ RangeDone
Spec == Init /\ [][Next]_vars

\* ---------------------------------------------------------------- properties
Done == pc = "done"
\* a negative integer is an offset from the head, resolved with one look at the head
OffsetFromHead == (Done /\ arg[1] = "id" /\ IsInt(arg[2]) /\ arg[2][2] < 0) =>
  /\ log = <<Hdr(Head0)>>
  /\ H + arg[2][2] >= 0 => res = <<"block", <<"lvl", H + arg[2][2]>> >>
\* every other block id is passed on as it is, without asking the node
Verbatim == (Done /\ arg[1] = "id" /\ ~(IsInt(arg[2]) /\ arg[2][2] < 0)) => res = <<"block", arg[2]>> /\ log = <<>>
\* no negative level is ever addressed ... except by the first deviation above
NegStopCall == arg[1] = "slice" /\ op = Call /\ IsInt(arg[3]) /\ arg[3][2] < 0
NoNegativeLevel == ~(AsCoded /\ NegStopCall) =>
  /\ \A i \in DOMAIN log : (log[i][1] = "hdr" /\ IsInt(log[i][2])) => log[i][2][2] >= 0
  /\ (res[1] = "block" /\ IsInt(res[2])) => res[2][2] >= 0
NegStopCallFails == (AsCoded /\ Done /\ NegStopCall /\ arg[2] # None /\ (IsInt(arg[2]) \/ Resolve(arg[2], H) >= 0)) => res = <<"error", "RpcError">>
\* the ends of a range are the levels the slice stands for
SliceStartInt == arg[1] = "slice" /\ arg[2] # None /\ IsInt(arg[2])
RangeIsDeclared == (Done /\ SliceStartInt /\ arg[2][2] # 0 /\ DeclHi(arg[3], H) >= 0 /\ res[1] = "range") =>
  res = <<"range", DeclLo(arg[2], H), DeclHi(arg[3], H)>>
IndexInsideRange == (Done /\ SliceStartInt /\ arg[2][2] # 0 /\ DeclHi(arg[3], H) >= 0 /\ op[1] = "idx" /\ res[1] = "block") =>
  /\ res[2][2] >= DeclLo(arg[2], H) /\ res[2][2] <= DeclHi(arg[3], H)
  /\ op[2] = 0 => res[2][2] = DeclLo(arg[2], H)
  /\ op[2] = -1 => res[2][2] = DeclHi(arg[3], H)
\* calling a range with a level as start lists exactly its levels, from `stop` down to `start`
CallListsRange == (Done /\ SliceStartInt /\ arg[2][2] >= 1 /\ op = Call /\ res[1] = "hashes") =>
  LET a == arg[2][2] s == DeclHi(arg[3], H) IN
    /\ res[2] = [i \in 1..(s - a + 1) |-> s - i + 1]
    /\ log[Len(log)] = <<"list", s - a + 1, s>>
CallListsRangeNegStart == (~AsCoded /\ Done /\ SliceStartInt /\ arg[2][2] < 0 /\ H + arg[2][2] >= 1 /\ op = Call /\ res[1] = "hashes") =>
  LET a == H + arg[2][2] s == DeclHi(arg[3], H) IN res[2] = [i \in 1..(s - a + 1) |-> s - i + 1]
\* ... and pins the second deviation: with a negative start the call lists |start| blocks (not beyond level 1), one fewer than the range has
NegStartCallAsCoded == (AsCoded /\ Done /\ SliceStartInt /\ arg[2][2] < 0 /\ op = Call /\ res[1] = "hashes") =>
  Len(res[2]) = Min(DeclHi(arg[3], H), -arg[2][2])
\* a missing block is reported, never guessed
MissingIsError == (Done /\ arg[1] = "slice" /\ arg[2] # None /\ ~IsInt(arg[2]) /\ Resolve(arg[2], H) < 0) => res = <<"error", "RpcError">>
NoStartIsRejected == (Done /\ arg[1] = "slice" /\ arg[2] = None) => res = <<"error", "NotImplementedError">> /\ log = <<>>
=============================================================================
