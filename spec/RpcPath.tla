------------------------------- MODULE RpcPath -------------------------------
(* The path algebra of the RPC query layer (src/pytezos/rpc/query.py, registration in
   rpc/__init__.py + shell.py/protocol.py/helpers.py, the shortcuts of ShellQuery).
   Growth of the specification (not a listed property).

   A query object is (wild path, params, class).  Attribute access appends a literal segment,
   item access appends a `{}` placeholder and a parameter; the four names main/test/head/genesis
   are sugar for item access.  The class of the child is looked up in the registry by the wild
   path.  Calling the object requests GET <wild path with the placeholders filled in order>.

   The registry below is written from the Tezos RPC tree (which node of the tree is a chain, a
   block, a contract, ...), not read from the code.

   One action per public step: DoShort (a ShellQuery shortcut property), DoAttr, DoItem, DoCall.
   Exploration is bounded: a path follows the registered templates; at most MaxOdd steps may be
   `odd` (leave the registry tree, or use the other access kind than the template's slot). *)
EXTENDS Integers, Sequences, FiniteSets, TLC
CONSTANTS MaxDepth,     \* maximal number of path segments
          ItemVals,     \* values for item access, tagged: <<"s", "abc">> or <<"i", 7>> (non-negative)
          OffNames,     \* attribute names outside every registered template (e.g. "header")
          MaxOdd,       \* bound on odd steps per path
          ShortDepth,   \* bound on the steps taken after a shortcut
          MaxVar,       \* bound on parameter slots filled with something else than the usual .main / .head
          CallParams    \* sets of <<key, value>> (strings) a generic call is tried with
VARIABLES hist,         \* the public steps taken: <<"short", n>> | <<"attr", a>> | <<"item", v>>
          wild,         \* wild path: sequence of segments, W for a placeholder
          params,       \* parameter values, in order
          cls,          \* name of the resolved class
          odd,          \* number of odd steps taken
          var,          \* number of varied parameter steps taken
          phase,        \* "build" | "called"
          texts,        \* the user's segments as text, shortcuts spelled out (= Texts(hist), kept for speed)
          given,        \* the keyword arguments of the call (empty before)
          intent,       \* the class the concrete path stands for (declarative; history variable for the comparison)
          log           \* requests made so far: <<method, segments, set of <<key, value>> >>
vars == <<hist, wild, params, cls, odd, var, phase, texts, given, intent, log>>

W == "{}"
Special == {"main", "test", "head", "genesis"}
Str(v) == IF v[1] = "s" THEN v[2] ELSE ToString(v[2])

\* ---------------------------------------------------------------- registry (RPC tree)
BP == <<"chains", W, "blocks", W>>
HP == BP \o <<"helpers">>
SP == HP \o <<"scripts">>
RegPairs == {
  << <<>>, "ShellQuery" >>,
  << <<"chains", W>>, "ChainQuery" >>,
  << <<"chains", W, "blocks">>, "BlocksQuery" >>,
  << BP, "BlockQuery" >>,
  << BP \o <<"context", "contracts", W>>, "ContractQuery" >>,
  << BP \o <<"context", "contracts", W, "big_map_get">>, "BigMapGetQuery" >>,
  << BP \o <<"context", "raw", "bytes">>, "ContextRawBytesQuery" >>,
  << BP \o <<"context", "raw", "json">>, "ContextRawJsonQuery" >>,
  << BP \o <<"context", "seed">>, "ContextSeedQuery" >>,
  << BP \o <<"endorsing_power">>, "EndorsingPower" >>,
  << HP \o <<"baking_rights">>, "BakingRightsQuery" >>,
  << HP \o <<"forge", "operations">>, "ForgeOperationsQuery" >>,
  << HP \o <<"forge", "protocol_data">>, "ForgeProtocolDataQuery" >>,
  << HP \o <<"forge_block_header">>, "ForgeBlockHeaderQuery" >>,
  << HP \o <<"parse", "block">>, "ParseBlockQuery" >>,
  << HP \o <<"parse", "operations">>, "ParseOperationsQuery" >>,
  << HP \o <<"preapply", "block">>, "PreapplyBlockQuery" >>,
  << HP \o <<"preapply", "operations">>, "PreapplyOperationsQuery" >>,
  << SP \o <<"entrypoint">>, "ScriptsEntrypoint" >>,
  << SP \o <<"entrypoints">>, "ScriptsEntrypoints" >>,
  << SP \o <<"pack_data">>, "ScriptsPackDataQuery" >>,
  << SP \o <<"run_code">>, "ScriptsRunCodeQuery" >>,
  << SP \o <<"run_operation">>, "ScriptsRunOperationQuery" >>,
  << SP \o <<"run_script_view">>, "ScriptsRunScriptViewQuery" >>,
  << SP \o <<"trace_code">>, "ScriptsTraceCodeQuery" >>,
  << SP \o <<"typecheck_code">>, "ScriptsTypecheckCodeQuery" >>,
  << SP \o <<"typecheck_data">>, "ScriptsTypecheckDataQuery" >>,
  << BP \o <<"operations">>, "OperationListListQuery" >>,
  << BP \o <<"operations", W, W>>, "OperationQuery" >>,
  << BP \o <<"votes", "proposals">>, "ProposalsQuery" >>,
  << BP \o <<"votes", "proposals", W>>, "ProposalQuery" >>,
  << <<"chains", W, "invalid_blocks", W>>, "InvalidBlockQuery" >>,
  << <<"chains", W, "mempool">>, "MempoolQuery" >>,
  << <<"chains", W, "mempool", "pending_operations">>, "PendingOperationsQuery" >>,
  << <<"describe">>, "DescribeQuery" >>,
  << <<"injection", "block">>, "BlockInjectionQuery" >>,
  << <<"injection", "operation">>, "OperationInjectionQuery" >>,
  << <<"injection", "protocol">>, "ProtocolInjectionQuery" >>,
  << <<"monitor", "active_chains">>, "MonitorQuery" >>,
  << <<"monitor", "bootstrapped">>, "MonitorQuery" >>,
  << <<"monitor", "commit_hash">>, "MonitorQuery" >>,
  << <<"monitor", "heads", W>>, "MonitorQuery" >>,
  << <<"monitor", "protocols">>, "MonitorQuery" >>,
  << <<"monitor", "valid_blocks">>, "MonitorQuery" >>,
  << <<"network", "connections", W>>, "ConnectionQuery" >>,
  << <<"network", "peers">>, "NetworkItems" >>,
  << <<"network", "points">>, "NetworkItems" >>,
  << <<"network", "peers", W, "log">>, "NetworkLogQuery" >>,
  << <<"network", "points", W, "log">>, "NetworkLogQuery" >> }
Templates == {p[1] : p \in RegPairs}
MaxLen == 8
ByLen == [n \in 0..MaxLen |-> {p \in RegPairs : Len(p[1]) = n}]       \* index, for speed only
Longer == [n \in 0..MaxLen |-> {t \in Templates : Len(t) > n}]

\* ---------------------------------------------------------------- the code's steps
\* _spawn_query: exact lookup of the wild path
Lookup(w) == LET R == IF Len(w) <= MaxLen THEN ByLen[Len(w)] ELSE {} IN
             IF \E p \in R : p[1] = w THEN (CHOOSE p \in R : p[1] = w)[2] ELSE "RpcQuery"
Spawn(w, p) == <<w, p, Lookup(w)>>

\* ShellQuery shortcuts as the docstrings describe them (target given directly)
HeadHash == <<"s", "BHEAD">>      \* what the node answers for .../blocks/head/hash
MainBlocks == <<"chains", W, "blocks">>
ShortNames == {"blocks", "head", "contracts", "mempool", "cycles", "voting_periods", "block"}
ShortTarget(n) ==
  CASE n = "blocks" -> <<MainBlocks, << <<"s", "main">> >>, "BlocksQuery">>
    [] n = "head" -> <<BP, << <<"s", "main">>, <<"s", "head">> >>, "BlockQuery">>
    [] n = "contracts" -> <<BP \o <<"context", "contracts">>, << <<"s", "main">>, <<"s", "head">> >>, "RpcQuery">>
    [] n = "mempool" -> << <<"chains", W, "mempool">>, << <<"s", "main">> >>, "MempoolQuery">>
    [] n = "cycles" -> <<MainBlocks, << <<"s", "main">> >>, "CyclesQuery">>
    [] n = "voting_periods" -> <<MainBlocks, << <<"s", "main">> >>, "VotingPeriodsQuery">>
    [] n = "block" -> <<BP, << <<"s", "main">>, HeadHash >>, "BlockQuery">>
\* the same shortcuts spelled out (what the user would write by hand)
A(x) == <<"attr", x>>
LongForm(n) ==
  CASE n = "blocks" -> <<A("chains"), A("main"), A("blocks")>>
    [] n = "head" -> <<A("chains"), A("main"), A("blocks"), A("head")>>
    [] n = "contracts" -> <<A("chains"), A("main"), A("blocks"), A("head"), A("context"), A("contracts")>>
    [] n = "mempool" -> <<A("chains"), A("main"), A("mempool")>>
    [] n = "cycles" -> <<A("chains"), A("main"), A("blocks")>>
    [] n = "voting_periods" -> <<A("chains"), A("main"), A("blocks")>>
    [] n = "block" -> <<A("chains"), A("main"), A("blocks"), <<"item", HeadHash>> >>

Step(s, st) ==
  CASE st[1] = "attr" -> IF st[2] \in Special
                         THEN Spawn(Append(s[1], W), Append(s[2], <<"s", st[2]>>))     \* sugar for item access
                         ELSE Spawn(Append(s[1], st[2]), s[2])
    [] st[1] = "item" -> Spawn(Append(s[1], W), Append(s[2], st[2]))
    [] st[1] = "short" -> ShortTarget(st[2])
RECURSIVE ApplyAll(_, _)
ApplyAll(s, sts) == IF sts = <<>> THEN s ELSE ApplyAll(Step(s, Head(sts)), Tail(sts))
Root == << <<>>, <<>>, "ShellQuery" >>

\* .path: fill the placeholders from left to right
RECURSIVE Fmt(_, _)
Fmt(w, p) == IF w = <<>> THEN <<>>
             ELSE IF Head(w) = W THEN LET r == Fmt(Tail(w), Tail(p)) IN <<Str(Head(p))>> \o r
             ELSE LET r == Fmt(Tail(w), p) IN <<Head(w)>> \o r
NumW(w) == Cardinality({i \in DOMAIN w : w[i] = W})

\* ---------------------------------------------------------------- what the user means (declarative)
\* the text of every step, shortcuts spelled out
RECURSIVE Expand(_)
Expand(h) == IF h = <<>> THEN <<>>
             ELSE LET r == Expand(Tail(h)) IN (IF Head(h)[1] = "short" THEN LongForm(Head(h)[2]) ELSE <<Head(h)>>) \o r
StepText(st) == IF st[1] = "attr" THEN st[2] ELSE Str(st[2])
Texts(h) == LET e == Expand(h) IN [i \in DOMAIN e |-> StepText(e[i])]
\* template t matches the first n segments of x (a wildcard matches exactly one segment)
PrefixMatch(t, x, n) == Len(t) >= n /\ \A i \in 1..n : t[i] = W \/ t[i] = x[i]
Matches(t, x) == Len(t) = Len(x) /\ PrefixMatch(t, x, Len(x))
Lits(t) == Len(t) - NumW(t)
Intended(x) == LET C == {p \in (IF Len(x) <= MaxLen THEN ByLen[Len(x)] ELSE {}) : Matches(p[1], x)} IN
               IF C = {} THEN "RpcQuery" ELSE (CHOOSE p \in C : \A q \in C : Lits(p[1]) >= Lits(q[1]))[2]

\* classification of the next step (only used to bound the exploration and to name the deviation)
Cont(x) == {t \in (IF Len(x) <= MaxLen THEN Longer[Len(x)] ELSE {}) : PrefixMatch(t, x, Len(x))}
LitsNext(x) == {t[Len(x) + 1] : t \in Cont(x)} \ {W}
WildNext(x) == \E t \in Cont(x) : t[Len(x) + 1] = W
ItemLike(st) == st[1] = "item" \/ (st[1] = "attr" /\ st[2] \in Special)
\* a step is canonical when it uses the access kind of the slot it fills
Canonical(x, st) == IF ItemLike(st) THEN WildNext(x) /\ StepText(st) \notin LitsNext(x)
                    ELSE st[2] \in LitsNext(x)
\* kind confusion: the text fits a registered slot, the access kind does not
Confused(x, st) == IF ItemLike(st) THEN StepText(st) \in LitsNext(x) ELSE st[2] \notin LitsNext(x) /\ WildNext(x)
RECURSIVE AnyConfused(_, _)
AnyConfused(x, e) == IF e = <<>> THEN FALSE
                     ELSE IF Confused(x, Head(e)) THEN TRUE ELSE AnyConfused(Append(x, StepText(Head(e))), Tail(e))

\* ---------------------------------------------------------------- calls
\* how the class answers `q()`; "generic" passes the caller's keyword arguments as query parameters
CallKind(c) == CASE c = "BlocksQuery" -> "length"
                 [] c = "DescribeQuery" -> "recurse"
                 [] c = "ContextRawBytesQuery" -> "depth"
                 [] c = "ProposalQuery" -> "parent"
                 [] c \in {"CyclesQuery", "VotingPeriodsQuery"} -> "headmeta"
                 [] c \in {"BakingRightsQuery", "NetworkItems", "NetworkLogQuery"} -> "noargs"
                 [] OTHER -> "generic"
Front(s) == SubSeq(s, 1, Len(s) - 1)
CallReq(c, url, ps) ==
  CASE CallKind(c) = "length" -> <<"GET", url, {<<"length", "1">>}>>
    [] CallKind(c) = "recurse" -> <<"GET", url, {<<"recurse", "True">>}>>
    [] CallKind(c) = "depth" -> <<"GET", url, {<<"depth", "1">>}>>
    [] CallKind(c) = "parent" -> <<"GET", Front(url), {}>>
    [] CallKind(c) = "headmeta" -> <<"GET", url \o <<"head", "metadata">>, {}>>
    [] OTHER -> <<"GET", url, ps>>

\* ---------------------------------------------------------------- actions
Init == /\ hist = <<>> /\ wild = <<>> /\ params = <<>> /\ cls = "ShellQuery" /\ odd = 0 /\ var = 0 /\ phase = "build" /\ log = <<>>
        /\ intent = "ShellQuery" /\ texts = <<>> /\ given = {}
Cur == <<wild, params, cls>>
Usual(x) == IF Len(x) = 1 THEN "main" ELSE "head"       \* exploration bound only: the usual way to fill a slot
CanonicalL(lits, wn, st) == IF ItemLike(st) THEN wn /\ StepText(st) \notin lits ELSE st[2] \in lits
Take(st, isOdd) ==
  /\ phase = "build" /\ Len(wild) < MaxDepth
  /\ (hist # <<>> /\ hist[1][1] = "short") => Len(hist) <= ShortDepth
  /\ odd + (IF isOdd THEN 1 ELSE 0) <= MaxOdd
  /\ LET v == IF ItemLike(st) /\ st # <<"attr", Usual(texts)>> THEN 1 ELSE 0 IN var + v <= MaxVar /\ var' = var + v
  /\ LET s == Step(Cur, st) IN wild' = s[1] /\ params' = s[2] /\ cls' = s[3]
  /\ hist' = Append(hist, st) /\ odd' = odd + (IF isOdd THEN 1 ELSE 0)
  /\ LET t == texts \o Texts(<<st>>) IN texts' = t /\ intent' = Intended(t)
  /\ UNCHANGED <<phase, given>>
DoShort == \E n \in ShortNames :
  /\ hist = <<>> /\ Take(<<"short", n>>, FALSE)
  \* `block` asks the node for the head's hash first
  /\ log' = (IF n = "block" THEN << <<"GET", <<"chains", "main", "blocks", "head", "hash">>, {}>> >> ELSE log)
DoAttr == LET lits == LitsNext(texts) wn == WildNext(texts) IN
  \E a \in lits \cup Special \cup OffNames :
  /\ ~(wild = <<>> /\ a \in ShortNames)            \* at the root these names are the shortcut properties
  /\ Take(<<"attr", a>>, ~CanonicalL(lits, wn, <<"attr", a>>))
  /\ UNCHANGED log
\* plain item access; the classes with an own __getitem__ protocol are modelled in RpcPathBlocks / RpcPathOps
DoItem == LET lits == LitsNext(texts) wn == WildNext(texts) IN
  \E v \in ItemVals \cup {<<"s", l>> : l \in lits} :
  /\ cls \notin {"CyclesQuery", "VotingPeriodsQuery", "PendingOperationsQuery"}
  /\ Take(<<"item", v>>, ~CanonicalL(lits, wn, <<"item", v>>))
  /\ UNCHANGED log
DoCall == \E ps \in CallParams :
  /\ phase = "build"
  /\ ps = {} \/ CallKind(cls) = "generic"
  /\ phase' = "called" /\ given' = ps
  /\ log' = Append(log, CallReq(cls, Fmt(wild, params), ps))
  /\ UNCHANGED <<hist, wild, params, cls, odd, var, texts, intent>>
Next == DoShort \/ DoAttr \/ DoItem \/ DoCall
Spec == Init /\ [][Next]_vars

\* ---------------------------------------------------------------- properties
\* every placeholder has its parameter
Balanced == Len(params) = NumW(wild)
\* the path is the user's segments joined, in order
UrlIsJoinedSegments == Fmt(wild, params) = Texts(hist) /\ texts = Texts(hist)
\* a `{}` never reaches a URL
NoTemplateLeak == \A r \in {log[i] : i \in DOMAIN log} : \A j \in DOMAIN r[2] : r[2][j] # W
\* the call asks for this object's path (ProposalQuery: its parent's list; cycles: the head's metadata) with the caller's parameters
RequestIsPath == phase = "called" =>
  LET r == log[Len(log)] u == Texts(hist) IN
    /\ r[1] = "GET"
    /\ CASE CallKind(cls) = "parent" -> r[2] = Front(u)
         [] CallKind(cls) = "headmeta" -> r[2] = u \o <<"head", "metadata">>
         [] OTHER -> r[2] = u
    /\ CallKind(cls) = "generic" => r[3] = given
\* class dispatch: the most specific registered template matching the concrete path.
\* DEVIATION (as coded, see Lookup): the registry is consulted with the *wild* path, so the class depends on the access
\* kind, not on the path: `context['contracts']` (item access with a registered literal) and `blocks.foo` (attribute access
\* with a non-reserved name in a parameter slot) give a plain RpcQuery although the path is a registered one.
Explicit == {"CyclesQuery", "VotingPeriodsQuery"}      \* constructed directly by the shortcut, not via the registry
ClassIsMostSpecific ==
  cls \notin Explicit => (cls = Intended(Texts(hist)) \/ AnyConfused(<<>>, Expand(hist)))
ConfusionLosesClass ==      \* the other direction, so that the deviation is pinned down exactly
  (cls \notin Explicit /\ cls # Intended(Texts(hist))) => cls = "RpcQuery"
\* shortcuts are what their docstrings say
ShortcutIsLongForm == \A n \in ShortNames :
  LET l == ApplyAll(Root, LongForm(n)) t == ShortTarget(n) IN
    l[1] = t[1] /\ l[2] = t[2] /\ (t[3] \notin Explicit => l[3] = t[3])
\* building a path in two parts is building it at once
Associative == \A k \in 0..Len(hist) :
  ApplyAll(ApplyAll(Root, SubSeq(hist, 1, k)), SubSeq(hist, k + 1, Len(hist))) = Cur
\* no two templates are equally specific for one path (the registry is unambiguous on everything explored)
Unambiguous == LET x == Texts(hist) C == {p \in RegPairs : Matches(p[1], x)} IN
  \A p, q \in C : Lits(p[1]) = Lits(q[1]) => p = q
IntentIsDeclarative == intent = Intended(Texts(hist))
=============================================================================
