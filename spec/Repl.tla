-------------------------------- MODULE Repl --------------------------------
(* The Michelson REPL (Interpreter.execute, src/pytezos/michelson/repl.py) as a session of
   cells (C22).  A cell is a sequence of primitive steps; a failing cell is the same cell
   with a FAIL spliced in after its first `fp` steps.  Interpreter.execute takes a backup
   of stack and context before a cell and restores it when the cell fails, so the
   specification of a failing cell is: nothing changes.  The abstract state is what later
   cells can observe: the stack (big_maps by their identifier), the temporary and the
   allocation counters of the context, and the identifiers used by the lazy diffs of the
   commits so far.

   stack items:  <<"nat">>  <<"bm", id>>  <<"begun", id>> (pair parameter storage)  <<"opt">> <<"str">> <<"ops">> <<"res", id>> *)
EXTENDS Integers, Sequences, TLC
CONSTANTS MaxCells, MaxFails, MaxStack

Steps(c) == CASE c = "push" -> <<"PUSHNAT">>
              [] c = "newbm" -> <<"EMPTYBM">>
              [] c = "newbm2" -> <<"EMPTYBM", "PUSHOPT", "PUSHSTR", "UPDATE">>
              [] c = "upd" -> <<"PUSHOPT", "PUSHSTR", "UPDATE">>
              [] c = "del" -> <<"PUSHNONE", "PUSHSTR", "UPDATE">>     \* remove the key again: leaves a pending removal in the big_map (contents are compared by the harness)
              [] c = "begin" -> <<"BEGIN">>
              [] c = "commit" -> <<"CDR", "PUSHOPT", "PUSHSTR", "UPDATE", "NILOP", "PAIR", "COMMIT">>
              [] c = "drop" -> <<"DROP">>
              [] c = "dropall" -> <<"DROPALL">>
              [] c = "storage" -> <<"STORAGE">>
              [] c = "parambm" -> <<"PARAMBM">>            \* declare  parameter (big_map string nat)
              [] c = "lbm" -> <<"LISTBM">>                 \* a list holding a fresh big_map: a context-bound value below another constructor
              [] c = "sap" -> <<"SAPLING">>                \* SAPLING_EMPTY_STATE 8: another kind of value that is bound to the session's context
              [] c = "beginptr" -> <<"BEGINPTR">>          \* BEGIN 5 {} : the parameter is the on-chain big_map 5, which gets registered in the context
Cells == {"push", "newbm", "newbm2", "upd", "del", "begin", "commit", "drop", "dropall", "storage", "parambm", "beginptr", "sap", "lbm"}

VARIABLES stack, tmp, alloc, commits, ptype, regs, hist, fails
vars == <<stack, tmp, alloc, commits, ptype, regs, hist, fails>>
Init == stack = <<>> /\ tmp = 0 /\ alloc = 0 /\ commits = <<>> /\ ptype = "unit" /\ regs = {} /\ hist = <<>> /\ fails = 0

Stuck == << <<>>, -1, -1, <<>>, "unit", {} >>
IsStuck(st) == st[2] = -1
\* one primitive step on <<stack, tmp, alloc, commits>>;  Stuck when not applicable
Top(s) == s[1]
StepOn(st, p) ==
  LET s == st[1]  t == st[2]  a == st[3]  cm == st[4]  pt == st[5]  rg == st[6] IN
  CASE p = "PUSHNAT" -> <<<< <<"nat">> >> \o s, t, a, cm, pt, rg>>
    [] p = "PUSHOPT" -> <<<< <<"opt">> >> \o s, t, a, cm, pt, rg>>
    [] p = "PUSHNONE" -> <<<< <<"opt">> >> \o s, t, a, cm, pt, rg>>
    [] p = "PUSHSTR" -> <<<< <<"str">> >> \o s, t, a, cm, pt, rg>>
    [] p = "EMPTYBM" -> <<<< <<"bm", -(t + 1)>> >> \o s, t + 1, a, cm, pt, rg>>
    [] p = "UPDATE" -> IF Len(s) >= 3 /\ s[1] = <<"str">> /\ s[2] = <<"opt">> /\ s[3][1] = "bm" THEN <<SubSeq(s, 3, Len(s)), t, a, cm, pt, rg>> ELSE Stuck
    [] p = "BEGIN" -> IF pt = "unit" THEN <<<< <<"begun", -(t + 1)>> >>, t + 1, a, cm, pt, rg>> ELSE Stuck           \* the storage literal {} becomes a temporary big_map
    [] p = "CDR" -> IF Len(s) >= 1 /\ s[1][1] = "begun" THEN <<<< <<"bm", s[1][2]>> >> \o Tail(s), t, a, cm, pt, rg>> ELSE Stuck
    [] p = "LISTBM" -> <<<< <<"lst", -(t + 1)>> >> \o s, t + 1, a, cm, pt, rg>>
    [] p = "SAPLING" -> <<<< <<"sap">> >> \o s, t, a, cm, pt, rg>>
    [] p = "NILOP" -> <<<< <<"ops">> >> \o s, t, a, cm, pt, rg>>
    [] p = "PAIR" -> IF Len(s) >= 2 /\ s[1] = <<"ops">> /\ s[2][1] = "bm" THEN <<<< <<"res", s[2][2]>> >> \o SubSeq(s, 3, Len(s)), t, a, cm, pt, rg>> ELSE Stuck
    [] p = "COMMIT" -> IF Len(s) = 1 /\ s[1][1] = "res" THEN <<<<>>, t, a + 1, Append(cm, a), pt, rg>> ELSE Stuck   \* a fresh big_map is allocated the next id
    [] p = "DROP" -> IF Len(s) >= 1 THEN <<Tail(s), t, a, cm, pt, rg>> ELSE Stuck
    [] p = "DROPALL" -> <<<<>>, t, a, cm, pt, rg>>
    [] p = "STORAGE" -> st
    [] p = "PARAMBM" -> <<s, t, a, cm, "bm", rg>>
    \* the parameter (on-chain big_map 5) is attached as a *copy*: it takes a temporary id, registered as a copy of 5; the storage literal takes the next one
    [] p = "BEGINPTR" -> IF pt = "bm" THEN <<<< <<"begun", -(t + 2)>> >>, t + 2, a, cm, pt, rg \cup {<<-(t + 1), 5>>}>> ELSE Stuck
RECURSIVE RunSteps(_, _)
RunSteps(st, ps) == IF ps = <<>> \/ IsStuck(st) THEN st ELSE LET r == StepOn(st, Head(ps)) IN RunSteps(r, Tail(ps))

Cur == <<stack, tmp, alloc, commits, ptype, regs>>
\* fp = number of steps executed before the spliced FAIL; fp = -1: the cell has no FAIL
Cell(c, fp) ==
  /\ Len(hist) < MaxCells
  /\ LET full == RunSteps(Cur, Steps(c)) IN
       /\ ~IsStuck(full) /\ Len(full[1]) <= MaxStack            \* only cells that would succeed are in the alphabet
       /\ IF fp = -1
          THEN /\ stack' = full[1] /\ tmp' = full[2] /\ alloc' = full[3] /\ commits' = full[4] /\ ptype' = full[5] /\ regs' = full[6] /\ fails' = fails
          ELSE /\ fails < MaxFails /\ fails' = fails + 1
               /\ UNCHANGED <<stack, tmp, alloc, commits, ptype, regs>>          \* C22: a failing cell leaves the session as if it never ran
  /\ hist' = Append(hist, <<c, fp>>)
Ok(c) == Cell(c, -1)
Failing(c, fp) == Cell(c, fp)
Next == \E c \in Cells : Ok(c) \/ \E fp \in {0, Len(Steps(c)) \div 2, Len(Steps(c))} : Failing(c, fp)
Spec == Init /\ [][Next]_vars

Survivors(h) == SelectSeq(h, LAMBDA e : e[2] = -1)
RECURSIVE Replay(_, _)
Replay(st, h) == IF h = <<>> THEN st ELSE LET r == RunSteps(st, Steps(Head(h)[1])) IN Replay(r, Tail(h))
\* the session equals the session with the failing cells removed
AsIfNeverRan == Cur = Replay(<<<<>>, 0, 0, <<>>, "unit", {}>>, Survivors(hist))
Rollback == [][ hist'[Len(hist')][2] # -1 => UNCHANGED <<stack, tmp, alloc, commits, ptype, regs>> ]_vars
CountersMonotone == [][ tmp' >= tmp /\ alloc' >= alloc ]_vars
CommitIdsDistinct == \A i, j \in DOMAIN commits : i # j => commits[i] # commits[j]
=============================================================================
