------------------------------ MODULE BlockBake ------------------------------
(* The sandbox baking flow of pytezos (src/pytezos/block/header.py, block/forge.py, the
   bake_block / activate_protocol entry points of client.py, the validation pass table of
   rpc/kind.py):

       client.bake_block(min_fee).fill(timestamp).work().sign().inject()
       client.activate_protocol(hash).fill().sign().inject()

   Growth of the specification (not a listed property).  One action per step of the code: one
   `Classify` per mempool group visited by bake_block, `Fill` for the preapply round trip, one
   `WorkTry` per proof-of-work stamp evaluated, `Sign`, `Inject`.

   The node side is part of the state and chosen by TLC: head level / timestamp / next protocol,
   the validated groups of the mempool (kind of the first content, fee of every content), the
   groups the node refuses during preapply, and the proof-of-work stamp of the header for every
   nonce (abstract: below / equal to / above the threshold).

   The user side: `flow0`, the sequence of calls made on the header object.  Besides the
   documented order, the sequences that forget `work`, forget `sign`, or inject at once are
   explored.

   Values that are bytes in the implementation stay symbolic here (a group is its mempool
   position, the payload hash is the sequence of positions it covers, the signature is
   <<"sig", watermark tag, nonce of the signed header>>); the replay (harness/vf/props/X06.py
   with harness/vf/x06_ref.py) interprets them with its own forging / Merkle / base58 code.

   DEVIATIONS OF THE CODE FROM THE OBVIOUS INTENT, modelled as coded in separately named actions
   next to the intended behaviour (so that a corrected pytezos is accepted too); a state reached
   through one of them carries its name in `dev`:

   * ClassifyKeyErrorAsCoded  - rpc/kind.py:validation_passes lacks many operation kinds of the
     current protocols (attestation, preattestation, drain_delegate, set_deposits_limit,
     update_consensus_key, smart_rollup_originate, ...).  One such group among the validated
     operations of the mempool makes bake_block raise KeyError: no block can be baked until
     somebody else includes the operation.  Intended: every validated group lands in its pass.
   * InjectDummyAsCoded - fill() stores an all-zero dummy signature in the header, so the guard
     `if self.signature is None: raise ValueError('Not signed')` of binary_payload() no longer
     protects: bake_block().fill().work().inject() sends a block carrying the 64 zero bytes.
     Intended: ValueError('Not signed'), as for a header that was never filled. *)
EXTENDS Integers, Sequences, FiniteSets, TLC

CONSTANTS
  Mode,                \* "bake" | "activate"
  Groups,              \* universe of validated groups: <<kind of first content, <<fee of each content>>>>
  MaxMempool,
  MinFees,             \* values of the min_fee argument
  Protos,              \* version numbers of the head's next_protocol (0 = the genesis protocol)
  HeadLevels, HeadTimes,
  TsArgs,              \* values of the fill(timestamp=) argument, -1 = not given
  RefuseAny,           \* TRUE: preapply may refuse any subset of the groups; FALSE: it applies all
  StampPatterns,       \* set of sequences: stamp class of the header with nonce n at position n + 1
  Flows,               \* set of call sequences
  PrevFits,            \* fitness of the head for activate: <<>> or <<version, level>>
  BlocksPerCommitment

VARIABLES
  mempool, headLevel, headTs, proto, refusedSet, stamp, prevFit,    \* node side (chosen in Init)
  minFee, tsArg, flow0,                                              \* arguments / calls of the user
  flow,          \* calls still to come
  pc,            \* "bake" (inside bake_block) | "idle" (a header object is at hand) | "working" | "injected" | "refused" | "crashed"
  idx,           \* bake_block: position of the next mempool group
  passes,        \* header.operations before fill: 4 sequences of mempool positions (bake) or <<>> (activate)
  isFilled,
  req,           \* what fill sent to preapply: <<timestamp, seed_nonce_hash present, adaptive_issuance_vote present, operations>>
  applied,       \* what preapply answered = header.operations after fill
  payload,       \* positions covered by the payload hash, in order
  fitness,       \* activate: fitness announced in the command
  tried,         \* work: number of stamps evaluated so far
  nonce,         \* proof_of_work_nonce of the header at hand
  sig,           \* <<"none">> | <<"dummy">> | <<"sig", watermark tag, nonce of the signed header>>
  inj,           \* what reached injection/block: <<nonce, sig, operations>> or <<>>
  err,           \* exception that ended the flow: <<>> | <<"KeyError", kind>> | <<"NotSigned">>
  dev            \* names of the as-coded deviations on the way to this state

nodeVars == <<mempool, headLevel, headTs, proto, refusedSet, stamp, prevFit, minFee, tsArg, flow0>>
vars == <<nodeVars, flow, pc, idx, passes, isFilled, req, applied, payload, fitness, tried, nonce, sig, inj, err, dev>>

\* ---------------------------------------------------------------- protocol knowledge
\* Validation pass of an operation kind (Operation_repr.acceptable_pass of the protocol):
\* 0 consensus, 1 voting, 2 anonymous, 3 manager.
ConsensusKinds == {"endorsement", "endorsement_with_slot", "preendorsement", "attestation", "preattestation",
                   "attestation_with_dal", "attestations_aggregate", "preattestations_aggregate"}
VotingKinds == {"proposals", "ballot"}
AnonymousKinds == {"seed_nonce_revelation", "vdf_revelation", "double_endorsement_evidence", "double_preendorsement_evidence",
                   "double_attestation_evidence", "double_preattestation_evidence", "double_consensus_operation_evidence",
                   "double_baking_evidence", "dal_entrapment_evidence", "activate_account", "drain_delegate"}
IntendedPass(k) == IF k \in ConsensusKinds THEN 0 ELSE IF k \in VotingKinds THEN 1 ELSE IF k \in AnonymousKinds THEN 2 ELSE 3
\* kinds the table of pytezos does not know (the ones used by the universes of X06.py; see ClassifyKeyErrorAsCoded)
MissingInCode == {"attestation", "preattestation", "drain_delegate", "vdf_revelation", "set_deposits_limit",
                  "update_consensus_key", "increase_paid_storage", "smart_rollup_originate"}

Tenderbake(p) == p >= 12                      \* Ithaca and later
WatermarkTag(p) == IF Tenderbake(p) THEN 17 ELSE 1      \* 0x11 / 0x01, followed by the chain id
HasAiVote(p) == p < 24                        \* Tallinn removed adaptive_issuance_vote from the header

RECURSIVE Sum(_)
Sum(s) == IF s = <<>> THEN 0 ELSE LET r == Sum(Tail(s)) IN s[1] + r
KindOf(i) == mempool[i][1]
FeeOf(i) == Sum(mempool[i][2])
BelowMinFee(i) == IntendedPass(KindOf(i)) = 3 /\ FeeOf(i) < minFee

BSeq(S, n) == UNION {[1..k -> S] : k \in 0..n}
Ok(n) == stamp[n + 1] \in {"below", "equal"}          \* stamp <= threshold
NotRefused(s) == SelectSeq(s, LAMBDA i : i \notin refusedSet)
SeqToSet(s) == {s[i] : i \in DOMAIN s}

\* ---------------------------------------------------------------- behaviour
Init ==
  /\ mempool \in BSeq(Groups, MaxMempool) /\ minFee \in MinFees
  /\ headLevel \in HeadLevels /\ headTs \in HeadTimes /\ proto \in Protos
  /\ refusedSet \in (IF RefuseAny THEN SUBSET (1..Len(mempool)) ELSE {{}})
  /\ stamp \in StampPatterns /\ prevFit \in PrevFits
  /\ tsArg \in TsArgs /\ flow0 \in Flows /\ flow = flow0
  /\ pc = (IF Mode = "bake" THEN "bake" ELSE "idle") /\ idx = 1
  /\ passes = (IF Mode = "bake" THEN <<<<>>, <<>>, <<>>, <<>>>> ELSE <<>>)
  /\ isFilled = FALSE /\ req = <<>> /\ applied = <<>> /\ payload = <<>>
  \* activate_protocol: version kept (2 if there is no fitness yet), level + 1
  /\ fitness = (IF Mode = "bake" THEN <<>> ELSE IF prevFit = <<>> THEN <<2, 1>> ELSE <<prevFit[1], prevFit[2] + 1>>)
  /\ tried = 0 /\ nonce = 0 /\ sig = <<"none">> /\ inj = <<>> /\ err = <<>> /\ dev = {}

\* bake_block, one iteration of `for opg in pending_operations['validated']`
ClassifyIntended ==
  /\ pc = "bake" /\ idx <= Len(mempool)
  /\ LET p == IntendedPass(KindOf(idx)) IN
       passes' = (IF p = 3 /\ FeeOf(idx) < minFee THEN passes ELSE [passes EXCEPT ![p + 1] = Append(@, idx)])
  /\ idx' = idx + 1
  /\ UNCHANGED <<nodeVars, flow, pc, isFilled, req, applied, payload, fitness, tried, nonce, sig, inj, err, dev>>
\* AS CODED (deviation): the kind is not in validation_passes -> KeyError out of bake_block
ClassifyKeyErrorAsCoded ==
  /\ pc = "bake" /\ idx <= Len(mempool) /\ KindOf(idx) \in MissingInCode
  /\ pc' = "crashed" /\ err' = <<"KeyError", KindOf(idx)>> /\ dev' = dev \cup {"unknown-kind-KeyError"}
  /\ UNCHANGED <<nodeVars, flow, idx, passes, isFilled, req, applied, payload, fitness, tried, nonce, sig, inj>>
BakeReturn ==
  /\ pc = "bake" /\ idx > Len(mempool) /\ pc' = "idle"
  /\ UNCHANGED <<nodeVars, flow, idx, passes, isFilled, req, applied, payload, fitness, tried, nonce, sig, inj, err, dev>>

Calling(c) == pc = "idle" /\ flow # <<>> /\ Head(flow) = c
Return == flow' = Tail(flow)

Fill ==
  /\ Calling("fill") /\ ~isFilled /\ Return
  /\ LET level == headLevel + 1
         ts == IF tsArg = -1 THEN headTs + 1 ELSE tsArg
         ans == [p \in DOMAIN passes |-> NotRefused(passes[p])] IN
       /\ req' = <<ts, level % BlocksPerCommitment = 0, Mode = "bake" /\ HasAiVote(proto), passes>>
       /\ applied' = ans
       /\ payload' = (IF Mode = "bake" THEN ans[2] \o ans[3] \o ans[4] ELSE <<>>)
  /\ isFilled' = TRUE /\ sig' = <<"dummy">>
  /\ UNCHANGED <<nodeVars, pc, idx, passes, fitness, tried, nonce, inj, err, dev>>

WorkCall ==
  /\ Calling("work") /\ isFilled /\ pc' = "working" /\ tried' = 0
  /\ UNCHANGED <<nodeVars, flow, idx, passes, isFilled, req, applied, payload, fitness, nonce, sig, inj, err, dev>>
\* one evaluation of `header.pow_stamp() > threshold`: first the header at hand, then nonces 1, 2, ...
WorkTry ==
  /\ pc = "working"
  /\ LET c == IF tried = 0 THEN nonce ELSE tried IN
       IF Ok(c) THEN /\ nonce' = c /\ pc' = "idle" /\ Return /\ tried' = tried + 1
                ELSE /\ tried' = tried + 1 /\ tried + 1 < Len(stamp) /\ UNCHANGED <<nonce, pc, flow>>
  /\ UNCHANGED <<nodeVars, idx, passes, isFilled, req, applied, payload, fitness, sig, inj, err, dev>>

Sign ==
  /\ Calling("sign") /\ isFilled /\ Return
  /\ sig' = <<"sig", WatermarkTag(proto), nonce>>
  /\ UNCHANGED <<nodeVars, pc, idx, passes, isFilled, req, applied, payload, fitness, tried, nonce, inj, err, dev>>

InjectSigned ==
  /\ Calling("inject") /\ sig[1] = "sig" /\ Return
  /\ inj' = <<nonce, sig, applied>> /\ pc' = "injected"
  /\ UNCHANGED <<nodeVars, idx, passes, isFilled, req, applied, payload, fitness, tried, nonce, sig, err, dev>>
InjectNotSigned ==
  /\ Calling("inject") /\ sig[1] # "sig" /\ Return
  /\ pc' = "refused" /\ err' = <<"NotSigned">>
  /\ UNCHANGED <<nodeVars, idx, passes, isFilled, req, applied, payload, fitness, tried, nonce, sig, inj, dev>>
\* AS CODED (deviation): after fill the signature is the dummy, not None; the block goes out with 64 zero bytes
InjectDummyAsCoded ==
  /\ Calling("inject") /\ sig = <<"dummy">> /\ Return
  /\ inj' = <<nonce, sig, applied>> /\ pc' = "injected" /\ dev' = dev \cup {"dummy-signature-injected"}
  /\ UNCHANGED <<nodeVars, idx, passes, isFilled, req, applied, payload, fitness, tried, nonce, sig, err>>

Next == ClassifyIntended \/ ClassifyKeyErrorAsCoded \/ BakeReturn \/ Fill \/ WorkCall \/ WorkTry \/ Sign
          \/ InjectSigned \/ InjectNotSigned \/ InjectDummyAsCoded
Spec == Init /\ [][Next]_vars

\* ---------------------------------------------------------------- what a user relies on
Terminal == pc \in {"injected", "refused", "crashed"}
Baked == Mode = "bake" /\ pc \notin {"bake", "crashed"}
Occurrences(i) == Cardinality({<<p, j>> \in (1..4) \X (1..MaxMempool) : j <= Len(passes[p]) /\ passes[p][j] = i})

\* every validated group lands in exactly one pass - the one of the kind of its first content - unless it is a
\* manager group paying less than min_fee, which lands in none
EveryGroupInItsPass ==
  Baked => \A i \in 1..Len(mempool) :
             IF BelowMinFee(i) THEN Occurrences(i) = 0
             ELSE Occurrences(i) = 1 /\ \E j \in 1..Len(passes[IntendedPass(KindOf(i)) + 1]) : passes[IntendedPass(KindOf(i)) + 1][j] = i
\* the mempool order is kept inside a pass
OrderPreserved == Mode = "bake" => \A p \in 1..4 : \A j \in 1..Len(passes[p]) - 1 : passes[p][j] < passes[p][j + 1]
\* bake_block fails only through the named deviation
BakeCrashOnlyAsCoded == pc = "crashed" => dev = {"unknown-kind-KeyError"} /\ \E i \in 1..Len(mempool) : KindOf(i) \in MissingInCode
\* fill: the block is the successor of the head, one second later unless the caller says otherwise;
\* the seed nonce commitment is announced exactly on commitment levels
FillRules ==
  isFilled => /\ req[1] = (IF tsArg >= 0 THEN tsArg ELSE headTs + 1)
              /\ (req[2] <=> \E k \in 1..(headLevel + 1) : k * BlocksPerCommitment = headLevel + 1)
              /\ (req[3] => Mode = "bake" /\ proto <= 23) /\ (Mode = "bake" /\ proto <= 23 => req[3])
              /\ req[4] = passes
\* the node is asked about exactly the classified groups, and the header carries what it applied, in its order
AppliedComeFromRequest ==
  isFilled => \A p \in DOMAIN applied : /\ SeqToSet(applied[p]) \subseteq SeqToSet(passes[p])
                                        /\ SeqToSet(applied[p]) \cap refusedSet = {}
\* the payload hash covers all applied non-consensus groups, nothing else, voting before anonymous before manager,
\* each in block order
PayloadRule ==
  isFilled /\ Mode = "bake" =>
    /\ \A j \in DOMAIN payload : IntendedPass(KindOf(payload[j])) # 0 /\ payload[j] \notin refusedSet
    /\ \A i \in 1..Len(mempool) : (IntendedPass(KindOf(i)) # 0 /\ ~BelowMinFee(i) /\ i \notin refusedSet)
                                     => Cardinality({j \in DOMAIN payload : payload[j] = i}) = 1
    /\ \A j \in 1..Len(payload) - 1 :
         LET a == payload[j] b == payload[j + 1] IN
           \/ IntendedPass(KindOf(a)) < IntendedPass(KindOf(b))
           \/ IntendedPass(KindOf(a)) = IntendedPass(KindOf(b)) /\ a < b
\* work returns the FIRST header whose stamp is within the threshold, starting with the header as it is
WorkFindsFirst ==
  (pc = "idle" /\ "work" \in SeqToSet(flow0) /\ "work" \notin SeqToSet(flow)) \/ (Terminal /\ "work" \in SeqToSet(flow0) /\ isFilled)
     => Ok(nonce) /\ \A m \in 0..nonce - 1 : ~Ok(m)
WorkCountsStamps == pc = "working" => \A m \in 0..tried - 1 : ~Ok(m)
\* a header is never injected unsigned (except through the named deviation); what is injected is what was signed,
\* under the watermark of the protocol, with the operations the node applied
NeverInjectedUnsigned == pc = "injected" => (inj[2][1] = "sig" \/ "dummy-signature-injected" \in dev)
InjectedIsWhatWasSigned ==
  pc = "injected" /\ inj[2][1] = "sig" =>
     /\ inj[2][3] = inj[1] /\ inj[1] = nonce
     /\ inj[2][2] = (IF proto >= 12 THEN 17 ELSE 1)
     /\ inj[3] = applied /\ isFilled
RefusedSendsNothing == pc \in {"refused", "crashed"} => inj = <<>>
NothingInjectedEarly == ~Terminal => inj = <<>>
\* activate: the announced fitness is above the head's
FitnessGrows == Mode = "activate" => (IF prevFit = <<>> THEN fitness[2] >= 1 ELSE fitness[1] = prevFit[1] /\ fitness[2] = prevFit[2] + 1)

\* export of every finished behaviour for the replay
Emit == Terminal => PrintT(<<"OUT", <<mempool, minFee, headLevel, headTs, proto, refusedSet, stamp, prevFit, tsArg, flow0>>,
                            <<pc, err, passes, isFilled, req, applied, payload, fitness, nonce, sig, inj>>, dev>>)
=============================================================================
