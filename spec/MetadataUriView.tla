---------------------------- MODULE MetadataUriView ----------------------------
(* TZIP-16 off-chain views: ContractMetadata.<view>(argument).storage_view([storage])
   (src/pytezos/contract/metadata.py __getattribute__ / storage_view_impl, src/pytezos/contract/view.py
   ContractView.__call__, ContractViewCall.storage_view).  Growth of the specification (not a listed property).

   A michelsonStorageView is a pure function of its argument and of the contract's storage as of the block at which
   the contract is inspected (ContractInterface.using(block_id=..): "change the block at which the current contract is
   inspected"); the storage may be overridden by the caller.  The steps of the code: look the view up by its name,
   encode the argument against the declared parameter type, obtain the storage, run the code on Pair(argument, storage).

   The contract:  storage (pair (big_map %metadata string bytes) (pair (nat %counter) (big_map %token_metadata nat ..)))
   with a history of two blocks (the counter, the keys of %metadata and the tokens differ between "past" and "head");
   its TZIP-16 document declares
     get-counter     (no parameter)  -> nat            the counter
     add_to          (nat)           -> nat            argument + counter          (declared in the legacy spelling
                                                                                   "michelson-storage-view" / "return-type")
     Failing         (no parameter)                    FAILWITH
     lookup          (string)        -> option bytes   %metadata[argument]         (a lazy big_map read during the view)
     token_metadata  (nat)           -> pair nat (map string bytes)   or FAILWITH if the token is unknown
     rest-only                                          a restApiQuery implementation only: nothing to execute
   Strings are numbered: key 1 = "m" (always present), 2 = "n" (present at head only), 3 = "zz" (never). *)
EXTENDS Integers, Sequences, FiniteSets, TLC
CONSTANTS DevChoices, Replayed     \* sets of named deviations to explore (Init picks one); behaviours under Replayed are exported
VARIABLES block,      \* "head" | "past": the block the contract interface was bound to
          call,       \* <<attribute name, argument, "chain" | "given">>
          devs, pc, ptype, arg, store, result, reads, taken
vars == <<block, call, devs, pc, ptype, arg, store, result, reads, taken>>

\* the chain
CounterAt(b) == IF b = "head" THEN 7 ELSE 3
KeysAt(b) == IF b = "head" THEN {1, 2} ELSE {1}
TokensAt(b) == IF b = "head" THEN {0, 1} ELSE {0}
StoreAt(b) == <<CounterAt(b), KeysAt(b), TokensAt(b)>>
Given == <<99, {}, {}>>                   \* the storage passed by the caller: counter 99, empty maps

\* attribute name -> <<parameter type, has a michelsonStorageView implementation>>
Declared == {"getCounter", "addTo", "failing", "lookup", "tokenMetadata", "restOnly"}
ParamOf(n) == CASE n \in {"getCounter", "failing", "restOnly"} -> "unit" [] n \in {"addTo", "tokenMetadata"} -> "nat" [] OTHER -> "string"
Executable(n) == n \in Declared \ {"restOnly"}
Args == {<<"unit", 0>>, <<"nat", 0>>, <<"nat", 1>>, <<"nat", 5>>, <<"int", -1>>, <<"string", 1>>, <<"string", 2>>, <<"string", 3>>}
Fits(a, ty) == a[1] = ty      \* a negative integer is no nat; a string is no nat; no argument is Unit

\* the function a view computes
Eval(n, a, s) == CASE n = "getCounter" -> <<"nat", s[1]>>
                   [] n = "addTo" -> <<"nat", a[2] + s[1]>>
                   [] n = "failing" -> <<"error", "failed">>
                   [] n = "lookup" -> IF a[2] \in s[2] THEN <<"some", a[2]>> ELSE <<"nothing">>
                   [] n = "tokenMetadata" -> IF a[2] \in s[3] THEN <<"token", a[2]>> ELSE <<"error", "failed">>

Init == /\ block \in {"head", "past"} /\ devs \in DevChoices
        /\ call \in (Declared \cup {"nope"}) \X Args \X {"chain", "given"}
        /\ pc = "lookup" /\ ptype = "?" /\ arg = <<"?", 0>> /\ store = <<0, {}, {}>> /\ result = <<"unset">> /\ reads = {} /\ taken = {}
Fail(cls) == pc' = "done" /\ result' = <<"error", cls>>

\* ContractMetadata.__getattribute__: only views with a michelsonStorageView implementation are callable
Lookup ==
  /\ pc = "lookup"
  /\ IF Executable(call[1]) THEN ptype' = ParamOf(call[1]) /\ pc' = "encode" /\ UNCHANGED result
     ELSE Fail("unknown-view") /\ UNCHANGED ptype
  /\ UNCHANGED <<block, call, devs, arg, store, reads, taken>>
\* ContractView.__call__: the argument must be of the declared parameter type (unit when none is declared)
Encode ==
  /\ pc = "encode"
  /\ IF Fits(call[2], ptype) THEN arg' = call[2] /\ pc' = "storage" /\ UNCHANGED result
     ELSE Fail("bad-argument") /\ UNCHANGED arg
  /\ UNCHANGED <<block, call, devs, ptype, store, reads, taken>>
\* ContractViewCall._get_storage: the caller's storage, or the contract's storage at the block the interface is bound to
ReadStorage ==
  /\ pc = "storage" /\ ~(call[3] = "chain" /\ "ViewReadsHead" \in devs)
  /\ IF call[3] = "given" THEN store' = Given /\ UNCHANGED reads
     ELSE store' = StoreAt(block) /\ reads' = reads \cup {block}
  /\ pc' = "run" /\ UNCHANGED <<block, call, devs, ptype, arg, result, taken>>
\* AS CODED (`context.get_storage_value` asks `shell.head`, and the interpreter's context is spawned without the block id):
\* the view always sees the head, whatever block the contract interface is bound to
ViewReadsHeadAsCoded ==
  /\ pc = "storage" /\ call[3] = "chain" /\ "ViewReadsHead" \in devs
  /\ store' = StoreAt("head") /\ reads' = reads \cup {"head"}
  /\ taken' = (IF block # "head" THEN taken \cup {"ViewReadsHead"} ELSE taken)
  /\ pc' = "run" /\ UNCHANGED <<block, call, devs, ptype, arg, result>>
\* Interpreter.run_callback on Pair(argument, storage)
Run ==
  /\ pc = "run"
  /\ pc' = "done" /\ result' = Eval(call[1], arg, store)
  /\ UNCHANGED <<block, call, devs, ptype, arg, store, reads, taken>>
Next == Lookup \/ Encode \/ ReadStorage \/ ViewReadsHeadAsCoded \/ Run
Spec == Init /\ [][Next]_vars

\* ----------------------------------------------------------------- properties
Done == pc = "done"
Intended == LET n == call[1] a == call[2] IN
  IF ~Executable(n) THEN <<"error", "unknown-view">>
  ELSE IF a[1] # ParamOf(n) THEN <<"error", "bad-argument">>
  ELSE Eval(n, a, IF call[3] = "given" THEN Given ELSE StoreAt(block))
ResultIsIntended == Done /\ taken = {} => result = Intended
OnlyNamedDeviations == taken \subseteq devs /\ (Done /\ result # Intended => taken # {})
\* a view reads the chain at one block only, the one the interface is bound to; with the caller's storage it does not read the chain
ReadsOneBlock == (taken = {} => reads \subseteq {block}) /\ (call[3] = "given" => reads = {})
\* with the caller's storage the answer does not depend on the chain
GivenIsSelfContained == Done /\ call[3] = "given" /\ Executable(call[1]) /\ Fits(call[2], ParamOf(call[1])) => result = Eval(call[1], call[2], Given)
Export == (Done /\ devs = Replayed) => PrintT(<<"OUT", "VIEW", block, call, result, reads, taken, Intended>>)
=============================================================================
