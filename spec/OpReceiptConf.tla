---------------------------- MODULE OpReceiptConf ----------------------------
(* ShellQuery.get_confirmations(opg_hash, kind, branch, head) (src/pytezos/rpc/shell.py): the number of
   confirmations of an operation, found by scanning the blocks from `head` down to (excluding) `branch`
   for the operation's hash in the validation pass of its kind.  One action per block scanned.
   Growth of the specification (not a listed property); companion of OpReceipt.tla.

   Convention (the one wait_operations uses as well, and the only one under which "0 if not found" is
   unambiguous): the block that includes the operation is its first confirmation.

   Levels are relative: the branch block is at level B, the head at level H >= B; the operation is included
   at level `at` (0 = nowhere) in pass `pass` at position `idx` (other operations fill the block). *)
EXTENDS Integers, Sequences, TLC
CONSTANTS MaxHead,       \* head level ranges over 1..MaxHead
          Passes,        \* validation passes the operation may sit in (0 consensus, 1 voting, 2 anonymous, 3 manager)
          Kinds          \* the kind asked for, given by its validation pass (the replay picks a kind of that pass)
VARIABLES head, branch, at, pass, idx, askPass,     \* the input
          pc, level, probes, result
vars == <<head, branch, at, pass, idx, askPass, pc, level, probes, result>>
input == <<head, branch, at, pass, idx, askPass>>

Init == /\ head \in 1..MaxHead /\ branch \in 0..head /\ at \in 0..head
        /\ pass \in Passes /\ idx \in 0..1 /\ askPass \in Kinds
        /\ pc = "scan" /\ level = head /\ probes = <<>> /\ result = -1
\* the hashes of pass p in the block at level l: the operation, if it is there, at position idx among fillers
Holds(l, p) == at = l /\ pass = p
Scan ==
  /\ pc = "scan"
  /\ IF level <= branch
     THEN pc' = "done" /\ result' = 0 /\ UNCHANGED <<level, probes>>
     ELSE /\ probes' = Append(probes, level)
          /\ IF Holds(level, askPass)
             THEN pc' = "done" /\ result' = head - level + 1 /\ UNCHANGED level
             ELSE pc' = "scan" /\ level' = level - 1 /\ UNCHANGED result
  /\ UNCHANGED input
Next == Scan
Spec == Init /\ [][Next]_vars

Done == pc = "done"
Included == at > branch /\ at <= head /\ pass = askPass      \* on the chain segment (branch, head], in the pass of its kind
CountsFromInclusion == Done => result = (IF Included THEN head - at + 1 ELSE 0)
ZeroIffNotFound == Done => (result = 0 <=> ~Included)
ScansDownward == /\ \A k \in 1..Len(probes) : probes[k] = head - k + 1
                 /\ \A k \in 1..Len(probes) : probes[k] > branch
NoBlockBeyondTheOperation == Done /\ Included => probes[Len(probes)] = at
Export == Done => PrintT(<<"OUT", input, result, probes>>)
=============================================================================
