------------------------------ MODULE MichPy ------------------------------
(* The Python object that stands for a Michelson value of an annotated storage / parameter
   type, and the two conversions (src/pytezos/michelson/types: adt.py get_type_layout,
   pair.py, sum.py, option.py, list.py, set.py, map.py, big_map.py; the convention is the one
   the generated type documentation `generate_pydoc` prints).  Property C12.

   Annotated types, tag-first:   <<prim, field, type>>                      leaves
                                 <<prim, field, type, arg>>                 option list set
                                 <<prim, field, type, arg1, arg2>>          pair or map big_map
   field / type = the %field and :type annotation, "" when absent.
   Values are MichSem values (<<"i",n>> <<"s",bytes>> <<"b",bytes>> <<"bool",b>> <<"unit">> <<"p",x,y>> <<"l",x>>
   <<"r",x>> <<"none">> <<"some",x>> <<"list",seq>> <<"set",sorted seq>> <<"map",sorted seq of <<k,v>>>>);
   a big_map is either a literal (<<"map", ..>>) or a pointer <<"bmptr", n>>.

   Python objects:  <<"pyint",n>> <<"pystr",bytes>> <<"pybytes",bytes>> <<"pybool",b>> <<"pyunit">> (pytezos.Unit)
                    <<"pynone">>  <<"pyname",string>> (a str that is a field / variant name)
                    <<"pytuple",seq>>  <<"pylist",seq>>  <<"pydict", seq of <<key object, object>>>>.

   Convention.  The name of a node is its field annotation, else its type annotation.
   * pair: nested pairs that carry no annotation are flattened into their parent, giving the
     element list of the record.  If no element has a name the object is a tuple.  Otherwise it is
     a dict: element i (from 0) is keyed by its name if it has one that no earlier element has,
     else by the fall-back <prim>_<i>.  Inside a map key / set element a pair is always a tuple.
   * or: all nested ors are flattened, giving the variant list; variants are keyed like record
     elements (always, named or not).  A value is {key: object of the variant}, as a key (key, object),
     and just the key string if every variant is unit (an enum).
   * option: None or the object of the content.  list: list.  set: list.  map / big_map literal: dict
     from key objects to value objects.  big_map pointer: the int.
   Where this convention gives two elements of one record or sum the same key it does not define an
   object (ConvOK is false): the property then still demands unique keys and the round trip, but the
   model predicts no particular object. *)
EXTENDS Integers, Sequences, FiniteSets, TLC
CONSTANTS MaxDepth,      \* 0..3
          MaxAnn,        \* at most this many annotated nodes per type
          LeafBases,     \* set of leaf prims
          BinPrims,      \* subset of {"pair", "or"}
          UnPrims,       \* subset of {"option", "list", "set"}
          MapPrims,      \* subset of {"map", "big_map"}
          FieldPool,     \* field annotations (on components of pair / or only)
          TypePool,      \* type annotations (anywhere)
          Universe       \* the set of types explored: GenUniverse, or a sampled set supplied by a wrapper module

\* ---------------------------------------------------------------- types
IsLeaf(t) == Len(t) = 3
Name(t) == IF t[2] # "" THEN t[2] ELSE t[3]
RECURSIVE KeyOK(_)     \* comparable; free of unit (pytezos cannot hash Unit keys: outside C12) and of option (option _)
KeyOK(t) == CASE IsLeaf(t) -> t[1] # "unit"
              [] t[1] \in {"pair", "or"} -> KeyOK(t[4]) /\ KeyOK(t[5])
              [] t[1] = "option" -> t[4][1] # "option" /\ KeyOK(t[4])
              [] OTHER -> FALSE
RECURSIVE HasBigMap(_)
HasBigMap(t) == CASE IsLeaf(t) -> FALSE
                  [] t[1] = "big_map" -> TRUE
                  [] t[1] \in {"option", "list", "set"} -> HasBigMap(t[4])
                  [] OTHER -> HasBigMap(t[4]) \/ HasBigMap(t[5])

\* universe: by depth level and exact number k of annotated nodes; position 0 = inside option / collection
\* (no field annotation, no big_map), 1 = component of a pair / or (field annotation and big_map allowed),
\* 2 = root (big_map allowed, no field annotation)
Annots(pos) == {<<"", a>> : a \in TypePool} \cup (IF pos = 1 THEN {<<f, "">> : f \in FieldPool} ELSE {})
AnnSet(k, pos) == {<<"", "">>} \cup (IF k = 0 THEN {} ELSE Annots(pos))
Cost(a) == IF a = <<"", "">> THEN 0 ELSE 1
Leaves(k, pos) == IF k = 0 THEN {<<b, "", "">> : b \in LeafBases}
                  ELSE IF k = 1 THEN {<<b, a[1], a[2]>> : b \in LeafBases, a \in Annots(pos)} ELSE {}
Comp(L, k, pos) ==   \* composite types with children from level L and exactly k annotated nodes
  UNION {LET k1 == k - Cost(a) IN
           UNION {{<<p, a[1], a[2], l, r>> : l \in L[kl][1], r \in L[k1 - kl][1]} : kl \in 0..k1, p \in BinPrims}
           \cup {<<p, a[1], a[2], x>> : p \in UnPrims \ {"set"}, x \in L[k1][0]}
           \cup {<<"set", a[1], a[2], x>> : x \in IF "set" \in UnPrims THEN {y \in L[k1][0] : KeyOK(y)} ELSE {}}
           \cup UNION {{<<p, a[1], a[2], kt, vt>> : kt \in {y \in L[kl][0] : KeyOK(y)}, vt \in L[k1 - kl][0]}
                       : kl \in 0..k1, p \in (IF pos = 0 THEN MapPrims \ {"big_map"} ELSE MapPrims)}
         : a \in AnnSet(k, pos)}
\* (TLC evaluates every constant definition at start-up, hence the guards)
Lvl0 == [k \in 0..MaxAnn |-> [pos \in 0..2 |-> Leaves(k, pos)]]
Lvl1 == IF MaxDepth < 1 THEN <<>> ELSE [k \in 0..MaxAnn |-> [pos \in 0..2 |-> Lvl0[k][pos] \cup Comp(Lvl0, k, pos)]]
Lvl2 == IF MaxDepth < 2 THEN <<>> ELSE [k \in 0..MaxAnn |-> [pos \in 0..2 |-> Lvl0[k][pos] \cup Comp(Lvl1, k, pos)]]
Lvl3 == IF MaxDepth < 3 THEN <<>> ELSE [k \in 0..MaxAnn |-> [pos \in 0..2 |-> Lvl0[k][pos] \cup Comp(Lvl2, k, pos)]]
Top == CASE MaxDepth = 0 -> Lvl0 [] MaxDepth = 1 -> Lvl1 [] MaxDepth = 2 -> Lvl2 [] OTHER -> Lvl3
GenUniverse == UNION {Top[k][2] : k \in 0..MaxAnn}

\* ---------------------------------------------------------------- layout (declarative)
Flattenable(c) == c[1] = "pair" /\ c[2] = "" /\ c[3] = ""
RECURSIVE PairElems(_)
PairElems(t) == LET E(c) == IF Flattenable(c) THEN PairElems(c) ELSE <<c>> IN E(t[4]) \o E(t[5])
RECURSIVE OrLeaves(_)
OrLeaves(t) == LET E(c) == IF c[1] = "or" THEN OrLeaves(c) ELSE <<c>> IN E(t[4]) \o E(t[5])
Elems(t) == IF t[1] = "pair" THEN PairElems(t) ELSE IF t[1] = "or" THEN OrLeaves(t) ELSE <<>>
Fallback(es, i) == es[i][1] \o "_" \o ToString(i - 1)
ElemName(es, i) == LET k == Name(es[i]) IN IF k # "" /\ \A j \in 1..(i - 1) : Name(es[j]) # k THEN k ELSE Fallback(es, i)
Names(es) == [i \in DOMAIN es |-> ElemName(es, i)]
Distinct(s) == \A i, j \in DOMAIN s : i # j => s[i] # s[j]
AnyNamed(es) == \E i \in DOMAIN es : Name(es[i]) # ""
AllUnit(es) == \A i \in DOMAIN es : es[i][1] = "unit"
RECURSIVE ConvOK(_)
ConvOK(t) == CASE IsLeaf(t) -> TRUE
               [] t[1] = "pair" -> LET es == PairElems(t) IN (AnyNamed(es) => Distinct(Names(es))) /\ \A i \in DOMAIN es : ConvOK(es[i])
               [] t[1] = "or" -> LET ls == OrLeaves(t) IN Distinct(Names(ls)) /\ \A i \in DOMAIN ls : ConvOK(ls[i])
               [] t[1] \in {"option", "list", "set"} -> ConvOK(t[4])
               [] OTHER -> ConvOK(t[4]) /\ ConvOK(t[5])
RECURSIVE NestedOpt(_)   \* an option directly inside an option: None and Some None share the documented object
NestedOpt(t) == CASE IsLeaf(t) -> FALSE
                  [] t[1] = "option" -> t[4][1] = "option" \/ NestedOpt(t[4])
                  [] t[1] \in {"list", "set"} -> NestedOpt(t[4])
                  [] OTHER -> NestedOpt(t[4]) \/ NestedOpt(t[5])

\* ---------------------------------------------------------------- values (ascending sequences of a few values per type)
Ends(s) == IF Len(s) <= 2 THEN s ELSE <<s[1], s[Len(s)]>>
LeafVals(b) == CASE b = "int" -> << <<"i", -1>>, <<"i", 5>> >>
                 [] b = "nat" -> << <<"i", 0>>, <<"i", 7>> >>
                 [] b = "string" -> << <<"s", <<>>>>, <<"s", <<97, 98>>>> >>
                 [] b = "bytes" -> << <<"b", <<>>>>, <<"b", <<0, 255>>>> >>
                 [] b = "bool" -> << <<"bool", FALSE>>, <<"bool", TRUE>> >>
                 [] b = "unit" -> << <<"unit">> >>
RECURSIVE Vals(_)
Vals(t) ==
  CASE IsLeaf(t) -> LeafVals(t[1])
    [] t[1] = "pair" -> LET L == Ends(Vals(t[4]))
                            R == Ends(Vals(t[5]))
                        IN [n \in 1..(Len(L) * Len(R)) |-> <<"p", L[((n - 1) \div Len(R)) + 1], R[((n - 1) % Len(R)) + 1]>>]
    [] t[1] = "or" -> LET L == Ends(Vals(t[4]))
                          R == Ends(Vals(t[5]))
                      IN [i \in DOMAIN L |-> <<"l", L[i]>>] \o [i \in DOMAIN R |-> <<"r", R[i]>>]
    [] t[1] = "option" -> LET X == Vals(t[4])
                              E == IF t[4][1] = "option" THEN X ELSE Ends(X)
                          IN << <<"none">> >> \o [i \in DOMAIN E |-> <<"some", E[i]>>]
    [] t[1] = "list" -> LET X == Ends(Vals(t[4]))
                        IN << <<"list", <<>>>>, <<"list", <<X[1]>>>> >> \o (IF Len(X) = 2 THEN << <<"list", <<X[2], X[1]>>>> >> ELSE <<>>)
    [] t[1] = "set" -> LET X == Ends(Vals(t[4]))
                       IN << <<"set", <<>>>>, <<"set", <<X[1]>>>> >> \o (IF Len(X) = 2 THEN << <<"set", X>> >> ELSE <<>>)
    [] OTHER -> LET K == Ends(Vals(t[4]))
                    V == Ends(Vals(t[5]))
                    lits == << <<"map", <<>>>>, <<"map", << <<K[1], V[Len(V)]>> >>>> >>
                            \o (IF Len(K) = 2 THEN << <<"map", << <<K[1], V[1]>>, <<K[2], V[Len(V)]>> >>>> >> ELSE <<>>)
                IN IF t[1] = "big_map" THEN lits \o << <<"bmptr", 7>>, <<"bmptr", 0>> >> ELSE lits      \* 0 is a big_map id like any other
Ascending(s) == \A i \in 1..(Len(s) - 1) : s[i] # s[i + 1]     \* (order itself is by construction; no duplicates is checked)
RECURSIVE HasType(_, _)
HasType(v, t) ==
  CASE IsLeaf(t) -> \E i \in DOMAIN LeafVals(t[1]) : LeafVals(t[1])[i] = v
    [] t[1] = "pair" -> v[1] = "p" /\ HasType(v[2], t[4]) /\ HasType(v[3], t[5])
    [] t[1] = "or" -> (v[1] = "l" /\ HasType(v[2], t[4])) \/ (v[1] = "r" /\ HasType(v[2], t[5]))
    [] t[1] = "option" -> v = <<"none">> \/ (v[1] = "some" /\ HasType(v[2], t[4]))
    [] t[1] \in {"list", "set"} -> v[1] = t[1] /\ \A i \in DOMAIN v[2] : HasType(v[2][i], t[4])
    [] OTHER -> \/ t[1] = "big_map" /\ v[1] = "bmptr"
                \/ v[1] = "map" /\ \A i \in DOMAIN v[2] : HasType(v[2][i][1], t[4]) /\ HasType(v[2][i][2], t[5])

\* ---------------------------------------------------------------- value <-> flattened elements
RECURSIVE PairFlat(_, _)
PairFlat(t, v) == LET E(c, x) == IF Flattenable(c) THEN PairFlat(c, x) ELSE <<x>> IN E(t[4], v[2]) \o E(t[5], v[3])
NElems(c) == IF Flattenable(c) THEN Len(PairElems(c)) ELSE 1
RECURSIVE Unflat(_, _)
Unflat(t, vs) == LET nl == NElems(t[4])
                     L == IF Flattenable(t[4]) THEN Unflat(t[4], SubSeq(vs, 1, nl)) ELSE vs[1]
                     R == IF Flattenable(t[5]) THEN Unflat(t[5], SubSeq(vs, nl + 1, Len(vs))) ELSE vs[nl + 1]
                 IN <<"p", L, R>>
NLeaves(c) == IF c[1] = "or" THEN Len(OrLeaves(c)) ELSE 1
RECURSIVE OrIndex(_, _)    \* <<index of the variant the value lies in, the variant's value>>
OrIndex(t, v) == IF v[1] = "l"
                 THEN IF t[4][1] = "or" THEN OrIndex(t[4], v[2]) ELSE <<1, v[2]>>
                 ELSE LET nl == NLeaves(t[4]) IN
                      IF t[5][1] = "or" THEN LET r == OrIndex(t[5], v[2]) IN <<nl + r[1], r[2]>> ELSE <<nl + 1, v[2]>>
RECURSIVE OrWrap(_, _, _)
OrWrap(t, i, x) == LET nl == NLeaves(t[4]) IN
                   IF i <= nl THEN <<"l", IF t[4][1] = "or" THEN OrWrap(t[4], i, x) ELSE x>>
                   ELSE <<"r", IF t[5][1] = "or" THEN OrWrap(t[5], i - nl, x) ELSE x>>

\* ---------------------------------------------------------------- the conversions
PyName(n) == <<"pyname", n>>
RECURSIVE ToPy(_, _, _)     \* cmp: inside a map key / set element
ToPy(t, v, cmp) ==
  CASE t[1] \in {"int", "nat"} -> <<"pyint", v[2]>>
    [] t[1] = "string" -> <<"pystr", v[2]>>
    [] t[1] = "bytes" -> <<"pybytes", v[2]>>
    [] t[1] = "bool" -> <<"pybool", v[2]>>
    [] t[1] = "unit" -> <<"pyunit">>
    [] t[1] = "pair" -> LET es == PairElems(t)
                            vs == PairFlat(t, v)
                            named == ~cmp /\ AnyNamed(es)
                            os == [i \in DOMAIN es |-> ToPy(es[i], vs[i], cmp)]
                        IN IF named THEN <<"pydict", [i \in DOMAIN es |-> <<PyName(Names(es)[i]), os[i]>>]>> ELSE <<"pytuple", os>>
    [] t[1] = "or" -> LET ls == OrLeaves(t)
                          iv == OrIndex(t, v)
                          key == PyName(Names(ls)[iv[1]])
                      IN IF AllUnit(ls) THEN key
                         ELSE LET o == ToPy(ls[iv[1]], iv[2], cmp) IN
                              IF cmp THEN <<"pytuple", <<key, o>>>> ELSE <<"pydict", << <<key, o>> >>>>
    [] t[1] = "option" -> IF v = <<"none">> THEN <<"pynone">> ELSE ToPy(t[4], v[2], cmp)
    [] t[1] = "list" -> <<"pylist", [i \in DOMAIN v[2] |-> ToPy(t[4], v[2][i], FALSE)]>>
    [] t[1] = "set" -> <<"pylist", [i \in DOMAIN v[2] |-> ToPy(t[4], v[2][i], TRUE)]>>
    [] OTHER -> IF v[1] = "bmptr" THEN <<"pyint", v[2]>>
                ELSE <<"pydict", [i \in DOMAIN v[2] |-> <<ToPy(t[4], v[2][i][1], TRUE), ToPy(t[5], v[2][i][2], FALSE)>>]>>

Lookup(d, n) == d[CHOOSE i \in DOMAIN d : d[i][1] = PyName(n)][2]
IndexOf(s, x) == CHOOSE i \in DOMAIN s : s[i] = x
Rank(t, v) == LET vs == Vals(t) IN IF \E i \in DOMAIN vs : vs[i] = v THEN IndexOf(vs, v) ELSE 0
SortPairs(t, kv) == \* a sequence of at most two <<key, value>> by the rank of the key
  IF Len(kv) = 2 /\ Rank(t, kv[1][1]) > Rank(t, kv[2][1]) THEN <<kv[2], kv[1]>> ELSE kv
RECURSIVE FromPy(_, _)
FromPy(t, o) ==
  CASE t[1] \in {"int", "nat"} -> <<"i", o[2]>>
    [] t[1] = "string" -> <<"s", o[2]>>
    [] t[1] = "bytes" -> <<"b", o[2]>>
    [] t[1] = "bool" -> <<"bool", o[2]>>
    [] t[1] = "unit" -> <<"unit">>
    [] t[1] = "pair" -> LET es == PairElems(t)
                            os == IF o[1] = "pydict" THEN [i \in DOMAIN es |-> Lookup(o[2], Names(es)[i])] ELSE o[2]
                        IN Unflat(t, [i \in DOMAIN es |-> FromPy(es[i], os[i])])
    [] t[1] = "or" -> LET ls == OrLeaves(t)
                          nm == IF o[1] = "pyname" THEN o[2]                    \* enum: the key itself
                                ELSE IF o[1] = "pydict" THEN o[2][1][1][2]     \* {key: object}
                                ELSE o[2][1][2]                                \* (key, object)
                          inner == IF o[1] = "pyname" THEN <<"pyunit">> ELSE IF o[1] = "pydict" THEN o[2][1][2] ELSE o[2][2]
                          i == IndexOf(Names(ls), nm)
                      IN OrWrap(t, i, FromPy(ls[i], inner))
    [] t[1] = "option" -> IF o = <<"pynone">> THEN <<"none">> ELSE <<"some", FromPy(t[4], o)>>
    [] t[1] = "list" -> <<"list", [i \in DOMAIN o[2] |-> FromPy(t[4], o[2][i])]>>
    [] t[1] = "set" -> LET xs == [i \in DOMAIN o[2] |-> FromPy(t[4], o[2][i])]
                       IN <<"set", IF Len(xs) = 2 /\ Rank(t[4], xs[1]) > Rank(t[4], xs[2]) THEN <<xs[2], xs[1]>> ELSE xs>>
    [] OTHER -> IF o[1] = "pyint" THEN <<"bmptr", o[2]>>
                ELSE <<"map", SortPairs(t[4], [i \in DOMAIN o[2] |-> <<FromPy(t[4], o[2][i][1]), FromPy(t[5], o[2][i][2])>>])>>

\* the documented shape of the objects of a type
RECURSIVE PyOK(_, _, _)
PyOK(t, o, cmp) ==
  CASE t[1] = "int" -> o[1] = "pyint"
    [] t[1] = "nat" -> o[1] = "pyint" /\ o[2] >= 0
    [] t[1] = "string" -> o[1] = "pystr"
    [] t[1] = "bytes" -> o[1] = "pybytes"
    [] t[1] = "bool" -> o[1] = "pybool"
    [] t[1] = "unit" -> o = <<"pyunit">>
    [] t[1] = "pair" -> LET es == PairElems(t) IN
                        IF ~cmp /\ AnyNamed(es)
                        THEN /\ o[1] = "pydict" /\ Len(o[2]) = Len(es)
                             /\ \A i \in DOMAIN es : o[2][i][1] = PyName(Names(es)[i]) /\ PyOK(es[i], o[2][i][2], FALSE)
                        ELSE /\ o[1] = "pytuple" /\ Len(o[2]) = Len(es)
                             /\ \A i \in DOMAIN es : PyOK(es[i], o[2][i], cmp)
    [] t[1] = "or" -> LET ls == OrLeaves(t)
                          ns == Names(ls) IN
                      IF AllUnit(ls) THEN o[1] = "pyname" /\ \E i \in DOMAIN ls : ns[i] = o[2]
                      ELSE IF cmp THEN /\ o[1] = "pytuple" /\ Len(o[2]) = 2
                                       /\ \E i \in DOMAIN ls : o[2][1] = PyName(ns[i]) /\ PyOK(ls[i], o[2][2], TRUE)
                      ELSE /\ o[1] = "pydict" /\ Len(o[2]) = 1
                           /\ \E i \in DOMAIN ls : o[2][1][1] = PyName(ns[i]) /\ PyOK(ls[i], o[2][1][2], FALSE)
    [] t[1] = "option" -> o = <<"pynone">> \/ PyOK(t[4], o, cmp)
    [] t[1] = "list" -> o[1] = "pylist" /\ \A i \in DOMAIN o[2] : PyOK(t[4], o[2][i], FALSE)
    [] t[1] = "set" -> o[1] = "pylist" /\ \A i \in DOMAIN o[2] : PyOK(t[4], o[2][i], TRUE)
    [] OTHER -> \/ t[1] = "big_map" /\ o[1] = "pyint"
                \/ o[1] = "pydict" /\ \A i \in DOMAIN o[2] : PyOK(t[4], o[2][i][1], TRUE) /\ PyOK(t[5], o[2][i][2], FALSE)

\* ---------------------------------------------------------------- state machine
\* per type: the key assignment loop of the root record / sum, one element per step (get_type_layout);
\* per value: encode to the object, decode it back
VARIABLES T, v, pc, li, reserved, keys, py, back
vars == <<T, v, pc, li, reserved, keys, py, back>>
Undef == <<"#undefined">>

Init == /\ T \in Universe
        /\ pc = "layout" /\ li = 1 /\ reserved = {} /\ keys = <<>>
        /\ v = Undef /\ py = Undef /\ back = Undef
LayoutStep == /\ pc = "layout"
              /\ LET es == Elems(T) IN
                 IF li > Len(es) THEN pc' = "pick" /\ UNCHANGED <<li, reserved, keys>>
                 ELSE LET k == Name(es[li]) IN
                      /\ IF k # "" /\ k \notin reserved
                         THEN reserved' = reserved \cup {k} /\ keys' = Append(keys, k)
                         ELSE keys' = Append(keys, Fallback(es, li)) /\ UNCHANGED reserved
                      /\ li' = li + 1 /\ UNCHANGED pc
              /\ UNCHANGED <<T, v, py, back>>
Pick == /\ pc = "pick"
        /\ \E i \in DOMAIN Vals(T) : v' = Vals(T)[i]
        /\ pc' = "encode"
        /\ UNCHANGED <<T, li, reserved, keys, py, back>>
Encode == /\ pc = "encode"
          /\ py' = IF ConvOK(T) THEN ToPy(T, v, FALSE) ELSE Undef
          /\ pc' = "decode"
          /\ UNCHANGED <<T, v, li, reserved, keys, back>>
Decode == /\ pc = "decode"
          /\ back' = IF ConvOK(T) THEN FromPy(T, py) ELSE Undef
          /\ pc' = "done"
          /\ UNCHANGED <<T, v, li, reserved, keys, py>>
Next == LayoutStep \/ Pick \/ Encode \/ Decode
Spec == Init /\ [][Next]_vars

\* ---------------------------------------------------------------- C12
\* the loop computes the declarative keys; they are unique wherever the convention defines the object
LayoutAgrees == pc # "layout" => keys = Names(Elems(T))
KeysUnique == pc = "pick" /\ ConvOK(T) /\ (T[1] = "pair" => AnyNamed(Elems(T))) => Distinct(keys)
ValuesOK == pc = "pick" => /\ \A i \in DOMAIN Vals(T) : HasType(Vals(T)[i], T)
                           /\ Distinct(Vals(T))
ObjectHasDocumentedShape == pc \in {"decode", "done"} /\ ConvOK(T) => PyOK(T, py, FALSE)
RoundTrip == pc = "done" /\ ConvOK(T) /\ ~NestedOpt(T) => back = v
\* the one place where the documented object is not injective: None and Some None of option (option t)
\* are both Python None; decoding gives the outer None (Dev: what an implementation of the convention returns)
OnlyNestedOptionCollapses == pc = "done" /\ ConvOK(T) /\ back # v =>
                                /\ NestedOpt(T) /\ HasType(back, T) /\ ToPy(T, back, FALSE) = py
Emit == pc = "done" => PrintT(<<"OUT", T, v, ConvOK(T), NestedOpt(T), py, back>>)
=============================================================================
