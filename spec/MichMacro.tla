----------------------------- MODULE MichMacro -----------------------------
(* Michelson macros (C19).  The *name* of a macro is generated from its structure (PAIR
   trees, C[AD]+R paths, ...) and its *meaning* is given directly on the typed stack of
   MichSem - not by expansion into instructions.  A behaviour is one macro applied to one
   stack: Init picks the case and computes the reference result; the invariants are the
   algebraic laws between macros; every case is exported for the conformance leg, where
   the macro text goes through the pytezos parser/expander and interpreter.

   trees   <<"leaf">> | <<"node", l, r>>           paths   sequences of "A" / "D"
   macros  <<"CMP", op>> <<"IF", op, bt, bf>> <<"IFCMP", op, bt, bf>> <<"FAIL">> <<"ASSERT">> <<"ASSERT_", op>>
           <<"ASSERT_CMP", op>> <<"ASSERT_NONE">> <<"ASSERT_SOME">> <<"ASSERT_LEFT">> <<"ASSERT_RIGHT">>
           <<"DIIP", n, body>> <<"DUUP", n>> <<"PAIR", tree>> <<"UNPAIR", tree>> <<"CADR", path>>
           <<"SET_CADR", path>> <<"MAP_CADR", path, body>> <<"IF_SOME", bt, bf>> <<"IF_RIGHT", bt, bf>> *)
EXTENDS MichSem
CONSTANTS Macros, StacksOf(_)     \* set of macros; macro -> set of initial stacks

RECURSIVE FullTree(_, _)      \* full binary tree of pairs of depth d with distinct int leaves
FullTree(d, k) == IF d = 0 THEN S(TInt, I(k))
                  ELSE LET l == FullTree(d - 1, 2 * k)  r == FullTree(d - 1, 2 * k + 1) IN S(TPair(T(l), T(r)), <<"p", V(l), V(r)>>)

\* ---------- names ----------
RECURSIVE Rep(_, _)
Rep(str, k) == IF k = 0 THEN "" ELSE str \o Rep(str, k - 1)
RECURSIVE LName(_), RName(_)
LName(t) == IF t[1] = "leaf" THEN "A" ELSE "P" \o LName(t[2]) \o RName(t[3])
RName(t) == IF t[1] = "leaf" THEN "I" ELSE "P" \o LName(t[2]) \o RName(t[3])
PairName(t) == "P" \o LName(t[2]) \o RName(t[3]) \o "R"
RECURSIVE PathName(_)
PathName(p) == IF p = <<>> THEN "" ELSE Head(p) \o PathName(Tail(p))
Name(m) ==
  CASE m[1] \in {"CMP", "IF", "IFCMP"} -> m[1] \o m[2]
    [] m[1] = "ASSERT_" -> "ASSERT_" \o m[2]
    [] m[1] = "ASSERT_CMP" -> "ASSERT_CMP" \o m[2]
    [] m[1] = "DIIP" -> "D" \o Rep("I", m[2]) \o "P"
    [] m[1] = "DUUP" -> "D" \o Rep("U", m[2]) \o "P"
    [] m[1] = "PAIR" -> PairName(m[2])
    [] m[1] = "UNPAIR" -> "UN" \o PairName(m[2])
    [] m[1] = "CADR" -> "C" \o PathName(m[2]) \o "R"
    [] m[1] = "SET_CADR" -> "SET_C" \o PathName(m[2]) \o "R"
    [] m[1] = "MAP_CADR" -> "MAP_C" \o PathName(m[2]) \o "R"
    [] OTHER -> m[1]
Bodies(m) == CASE m[1] \in {"IF", "IFCMP"} -> <<m[3], m[4]>>
               [] m[1] = "DIIP" -> <<m[3]>>
               [] m[1] = "MAP_CADR" -> <<m[3]>>
               [] m[1] \in {"IF_SOME", "IF_RIGHT"} -> <<m[2], m[3]>>
               [] OTHER -> <<>>

\* ---------- direct meaning ----------
Test(op, n) == CASE op = "EQ" -> n = 0 [] op = "NEQ" -> n # 0 [] op = "LT" -> n < 0 [] op = "GT" -> n > 0 [] op = "LE" -> n <= 0 [] op = "GE" -> n >= 0
FailUnit == <<"fail", S(TUnit, <<"unit">>)>>
RECURSIVE Leaves(_)
Leaves(t) == IF t[1] = "leaf" THEN 1 ELSE Leaves(t[2]) + Leaves(t[3])
RECURSIVE Build(_, _)          \* slot built from the first Leaves(t) slots of st
Build(t, st) == IF t[1] = "leaf" THEN st[1]
                ELSE LET l == Build(t[2], st)
                         r == Build(t[3], Drop(st, Leaves(t[2]))) IN
                     S(TPair(T(l), T(r)), <<"p", V(l), V(r)>>)
RECURSIVE Shape(_, _)          \* does the type have the shape of the tree?
Shape(t, ty) == t[1] = "leaf" \/ (ty[1] = "pair" /\ Shape(t[2], ty[2]) /\ Shape(t[3], ty[3]))
RECURSIVE Unbuild(_, _)
Unbuild(t, x) == IF t[1] = "leaf" THEN <<x>>
                 ELSE Unbuild(t[2], S(T(x)[2], V(x)[2])) \o Unbuild(t[3], S(T(x)[3], V(x)[3]))
RECURSIVE PathOK(_, _)
PathOK(p, ty) == p = <<>> \/ (ty[1] = "pair" /\ PathOK(Tail(p), IF Head(p) = "A" THEN ty[2] ELSE ty[3]))
RECURSIVE FollowT(_, _)
FollowT(p, ty) == IF p = <<>> THEN ty ELSE FollowT(Tail(p), IF Head(p) = "A" THEN ty[2] ELSE ty[3])
RECURSIVE Follow(_, _)
Follow(p, x) == IF p = <<>> THEN x ELSE Follow(Tail(p), IF Head(p) = "A" THEN S(T(x)[2], V(x)[2]) ELSE S(T(x)[3], V(x)[3]))
RECURSIVE Replace(_, _, _)
Replace(p, x, y) == IF p = <<>> THEN y
                    ELSE IF Head(p) = "A"
                         THEN LET n == Replace(Tail(p), S(T(x)[2], V(x)[2]), y) IN S(TPair(T(n), T(x)[3]), <<"p", V(n), V(x)[3]>>)
                         ELSE LET n == Replace(Tail(p), S(T(x)[3], V(x)[3]), y) IN S(TPair(T(x)[2], T(n)), <<"p", V(x)[2], V(n)>>)

Most(p) == SubSeq(p, 1, Len(p) - 1)
LastIsD(p) == p[Len(p)] = "D"
MapBodyTypes(p, ty) == IF LastIsD(p) THEN <<FollowT(p, ty), FollowT(Most(p), ty)>> ELSE <<FollowT(p, ty)>>

\* well-typedness of a macro on a type stack (bodies are checked with the reference typing)
MOk(m, ts) ==
  LET n == Len(ts)  a == ts[1]  b == ts[2] IN
  CASE m[1] \in {"CMP", "ASSERT_CMP"} -> n >= 2 /\ a = b /\ Comparable(a)
    [] m[1] = "IFCMP" -> n >= 2 /\ a = b /\ Comparable(a) /\ ~IsIll(Join(TyS(m[3], Drop(ts, 2)), TyS(m[4], Drop(ts, 2))))
    [] m[1] = "IF" -> n >= 1 /\ a = TInt /\ ~IsIll(Join(TyS(m[3], Drop(ts, 1)), TyS(m[4], Drop(ts, 1))))
    [] m[1] = "FAIL" -> TRUE
    [] m[1] = "ASSERT" -> n >= 1 /\ a = TBool
    [] m[1] = "ASSERT_" -> n >= 1 /\ a = TInt
    [] m[1] \in {"ASSERT_NONE", "ASSERT_SOME"} -> n >= 1 /\ a[1] = "option"
    [] m[1] \in {"ASSERT_LEFT", "ASSERT_RIGHT"} -> n >= 1 /\ a[1] = "or"
    [] m[1] = "DIIP" -> n >= m[2] /\ ~IsIll(TyS(m[3], Drop(ts, m[2]))) /\ ~IsFailed(TyS(m[3], Drop(ts, m[2])))
    [] m[1] = "DUUP" -> n >= m[2] /\ Duplicable(ts[m[2]])
    [] m[1] = "PAIR" -> n >= Leaves(m[2])
    [] m[1] = "UNPAIR" -> n >= 1 /\ Shape(m[2], a)
    [] m[1] = "CADR" -> n >= 1 /\ PathOK(m[2], a)
    [] m[1] = "SET_CADR" -> n >= 2 /\ PathOK(m[2], a)
    [] m[1] = "MAP_CADR" -> n >= 1 /\ PathOK(m[2], a)
                            /\ LET r == TyS(m[3], MapBodyTypes(m[2], a) \o Drop(ts, 1)) IN
                                 ~IsIll(r) /\ ~IsFailed(r) /\ Len(r) = n + (IF LastIsD(m[2]) THEN 1 ELSE 0)
                                 /\ (LastIsD(m[2]) => r[2][1] = "pair")
    [] m[1] = "IF_SOME" -> n >= 1 /\ a[1] = "option" /\ ~IsIll(Join(TyS(m[2], <<a[2]>> \o Drop(ts, 1)), TyS(m[3], Drop(ts, 1))))
    [] m[1] = "IF_RIGHT" -> n >= 1 /\ a[1] = "or" /\ ~IsIll(Join(TyS(m[2], <<a[3]>> \o Drop(ts, 1)), TyS(m[3], <<a[2]>> \o Drop(ts, 1))))

NoEnv == [x \in {} |-> 0]
MRun(m, st) ==
  LET a == st[1]  b == st[2]  r1 == Drop(st, 1)  r2 == Drop(st, 2)  f == 8 IN
  CASE m[1] = "CMP" -> Ok(<<S(TBool, B(Test(m[2], Cmp(T(a), V(a), V(b)))))>> \o r2)
    [] m[1] = "IF" -> IF Test(m[2], V(a)[2]) THEN RunSeq(m[3], r1, NoEnv, f) ELSE RunSeq(m[4], r1, NoEnv, f)
    [] m[1] = "IFCMP" -> IF Test(m[2], Cmp(T(a), V(a), V(b))) THEN RunSeq(m[3], r2, NoEnv, f) ELSE RunSeq(m[4], r2, NoEnv, f)
    [] m[1] = "FAIL" -> FailUnit
    [] m[1] = "ASSERT" -> IF V(a)[2] THEN Ok(r1) ELSE FailUnit
    [] m[1] = "ASSERT_" -> IF Test(m[2], V(a)[2]) THEN Ok(r1) ELSE FailUnit
    [] m[1] = "ASSERT_CMP" -> IF Test(m[2], Cmp(T(a), V(a), V(b))) THEN Ok(r2) ELSE FailUnit
    [] m[1] = "ASSERT_NONE" -> IF V(a) = <<"none">> THEN Ok(r1) ELSE FailUnit
    [] m[1] = "ASSERT_SOME" -> IF V(a) = <<"none">> THEN FailUnit ELSE Ok(<<S(T(a)[2], V(a)[2])>> \o r1)
    [] m[1] = "ASSERT_LEFT" -> IF V(a)[1] = "l" THEN Ok(<<S(T(a)[2], V(a)[2])>> \o r1) ELSE FailUnit
    [] m[1] = "ASSERT_RIGHT" -> IF V(a)[1] = "r" THEN Ok(<<S(T(a)[3], V(a)[2])>> \o r1) ELSE FailUnit
    [] m[1] = "DIIP" -> LET r == RunSeq(m[3], Drop(st, m[2]), NoEnv, f) IN IF r[1] # "ok" THEN r ELSE Ok(Take(st, m[2]) \o r[2])
    [] m[1] = "DUUP" -> Ok(<<st[m[2]]>> \o st)
    [] m[1] = "PAIR" -> Ok(<<Build(m[2], st)>> \o Drop(st, Leaves(m[2])))
    [] m[1] = "UNPAIR" -> Ok(Unbuild(m[2], a) \o r1)
    [] m[1] = "CADR" -> Ok(<<Follow(m[2], a)>> \o r1)
    [] m[1] = "SET_CADR" -> Ok(<<Replace(m[2], a, b)>> \o r2)
    [] m[1] = "MAP_CADR" ->
         \* the reference defines MAP_C..AR / MAP_C..DR by expansion; what the body can see below the field differs:
         \*   ..A:  DUP ; CDR ; DIP { CAR ; code } ; SWAP ; PAIR        body on   field : S
         \*   ..D:  DUP ; CDR ; code ; SWAP ; CAR ; PAIR                body on   field : enclosing pair : S   (then CAR of what lies below the result)
         LET par == Follow(Most(m[2]), a)
             r == RunSeq(m[3], (IF LastIsD(m[2]) THEN <<Follow(m[2], a), par>> ELSE <<Follow(m[2], a)>>) \o r1, NoEnv, f) IN
         IF r[1] # "ok" THEN r
         ELSE IF LastIsD(m[2])
              THEN LET x == r[2][2]  np == S(TPair(T(x)[2], T(r[2][1])), <<"p", V(x)[2], V(r[2][1])>>) IN
                   Ok(<<Replace(Most(m[2]), a, np)>> \o Drop(r[2], 2))
              ELSE LET np == S(TPair(T(r[2][1]), T(par)[3]), <<"p", V(r[2][1]), V(par)[3]>>) IN
                   Ok(<<Replace(Most(m[2]), a, np)>> \o Tail(r[2]))
    [] m[1] = "IF_SOME" -> IF V(a) = <<"none">> THEN RunSeq(m[3], r1, NoEnv, f) ELSE RunSeq(m[2], <<S(T(a)[2], V(a)[2])>> \o r1, NoEnv, f)
    [] m[1] = "IF_RIGHT" -> IF V(a)[1] = "r" THEN RunSeq(m[2], <<S(T(a)[3], V(a)[2])>> \o r1, NoEnv, f) ELSE RunSeq(m[3], <<S(T(a)[2], V(a)[2])>> \o r1, NoEnv, f)

VARIABLES mac, stk, res
vars == <<mac, stk, res>>
Init == /\ mac \in Macros /\ stk \in StacksOf(mac)
        /\ MOk(mac, TypesOf(stk)) = TRUE      \* "= TRUE": TLC must evaluate this as a value; inside Init a disjunction would be explored branch by branch without short-circuit
        /\ res = MRun(mac, stk)
Next == UNCHANGED vars
Spec == Init /\ [][Next]_vars

\* ---------- laws ----------
UnpairUndoesPair == mac[1] = "PAIR" => MRun(<<"UNPAIR", mac[2]>>, res[2]) = Ok(stk)
PairUndoesUnpair == mac[1] = "UNPAIR" => MRun(<<"PAIR", mac[2]>>, res[2]) = Ok(stk)
SetThenGet == mac[1] = "SET_CADR" => Follow(mac[2], res[2][1]) = stk[2]
MapIsSetOfBody == mac[1] = "MAP_CADR" /\ res[1] = "ok" /\ ~LastIsD(mac[2]) =>
                    LET r == RunSeq(mac[3], <<Follow(mac[2], stk[1])>> \o Drop(stk, 1), NoEnv, 8) IN res[2][1] = Replace(mac[2], stk[1], r[2][1])
ResultsWellTyped == res[1] = "ok" => SlotsOK(res[2])
CmpIsCompareThenTest == mac[1] = "CMP" => res = RunSeq(<< <<"COMPARE">>, <<mac[2]>> >>, stk, NoEnv, 8)
Emit == PrintT(<<"OUT", Name(mac), Bodies(mac), stk, res>>)
=============================================================================
