--------------------------- MODULE OpClientTrace ---------------------------
(* Leg C for C25: client sessions recorded from the real pytezos operation client running against
   FakeNode (random call histories that are NOT derived from OpClient.tla) are checked against
   OpClient.tla.  For every recorded injection the counters read from the binary payload must be
     - the ideal ones (account counter + pending + 1..): nothing to report; or
     - exactly the counters of the as-coded machine in one of its named deviation classes:
       PrintT(<<"INFO", "DEV", tid, l, class>>)  (the check maps this to the known-finding signature); or
     - outside the compared domain (filled behind a refused injection): <<"INFO", "SKIP", ..>>;
   anything else is PrintT(<<"REJECT", tid, l, "counters", ..>>).  The node part of the state
   (chainCtr, mempool) is also recomputed and compared with the recorded node state.
   Once a fill produces counters that differ from the as-coded machine (a repaired client), the
   trace is marked `diverged` and only the ideal rule is demanded from then on. *)
EXTENDS Integers, Sequences, FiniteSets, TLC, Json, IOUtils, TLCExt
CONSTANTS Families,     \* not used: the bounds record `fam` is built from each trace's first line
          Repaired, MaxCtx
VARIABLES chainCtr, mempool, nctx, cache, ep, groups, accSet, refSet, log, calls, lastInj, hist, fam,
          tid, l, diverged
RA == INSTANCE OpClient
None == -1

Traces == JsonDeserialize(IOEnv.TRACE_FILE)
tvars == <<chainCtr, mempool, nctx, cache, ep, groups, accSet, refSet, log, calls, lastInj, hist, fam, tid, l, diverged>>
Classes == {"stale-cache-after-failed-simulation", "stale-cache-after-abandoned-fill", "plain-fill-with-nonempty-mempool",
            "autofill-ignores-validated-mempool", "stale-cache-after-block", "inject-between-pipelined-fills",
            "pipelined-fills-in-separate-contexts"}

Chain(t) == IF t <= Len(Traces) THEN Traces[t][1].chain ELSE 0
Key(t) == IF t <= Len(Traces) THEN Traces[t][1].key ELSE "applied"
\* the mempool RPC form of the recorded session is the only bound that matters here
Fam(t) == [name |-> "trace", groups |-> 100000, batches |-> {}, acts |-> {}, built |-> 100000, calls |-> 100000,
           ctx |-> MaxCtx, chain0 |-> Chain(t), key |-> Key(t)]

Init == /\ tid = 1 /\ l = 2 /\ fam = Fam(1) /\ diverged = FALSE
        /\ chainCtr = Chain(1) /\ mempool = <<>> /\ nctx = 0
        /\ cache = [c \in 1..MaxCtx |-> None] /\ ep = [c \in 1..MaxCtx |-> RA!EmptyEp]
        /\ groups = <<>> /\ accSet = {} /\ refSet = {} /\ log = <<>> /\ calls = 0 /\ lastInj = 0 /\ hist = <<>>
        /\ TLCSet(1, 0)
NextTrace == /\ tid' = tid + 1 /\ l' = 2 /\ fam' = Fam(tid + 1) /\ diverged' = FALSE
             /\ chainCtr' = Chain(tid + 1) /\ mempool' = <<>> /\ nctx' = 0
             /\ cache' = [c \in 1..MaxCtx |-> None] /\ ep' = [c \in 1..MaxCtx |-> RA!EmptyEp]
             /\ groups' = <<>> /\ accSet' = {} /\ refSet' = {} /\ log' = <<>> /\ calls' = 0 /\ lastInj' = 0 /\ hist' = <<>>

Ev == Traces[tid][l]
NewRec(g, plain) == RA!NewRec(g, plain)
Cause(r, want) == RA!Cause(r, want)
Same == UNCHANGED <<tid, fam, hist, log, calls>>

\* ---- preconditions: the recorded event fits the machine's state (otherwise the recorder/harness is wrong) ----
NodeOk == Ev.chain = chainCtr /\ Ev.pend = RA!Pending
Fits ==
  CASE Ev.ev = "build" -> NodeOk /\ Ev.new = Len(groups) + 1 /\ Ev.cx <= nctx + 1 /\ Ev.cx <= MaxCtx
    [] Ev.ev = "fill" -> NodeOk /\ Ev.g \in DOMAIN groups /\ groups[Ev.g].ctrs = <<>> /\ Ev.new = Len(groups) + 1
                         /\ Len(Ev.ctrs) = groups[Ev.g].n
    [] Ev.ev = "autofail" -> NodeOk /\ Ev.g \in DOMAIN groups /\ groups[Ev.g].ctrs = <<>>
    [] Ev.ev = "inject" -> /\ NodeOk /\ Ev.g \in DOMAIN groups /\ groups[Ev.g].ctrs # <<>> /\ Ev.g > lastInj
                           /\ Ev.want = RA!Seq1(chainCtr + RA!Pending, groups[Ev.g].n)     \* the fake node's rule is the spec's rule
                           /\ Ev.accepted = (Ev.got = Ev.want)
                           /\ Ev.behind = RA!BehindRefused(groups[Ev.g])
    [] Ev.ev = "bake" -> NodeOk /\ mempool # <<>>
    [] OTHER -> FALSE

\* ---- the verdict on an injection ----
Verdict(r) ==
  LET want == RA!Seq1(chainCtr + RA!Pending, r.n) IN
  IF Ev.got = want THEN "ok"
  ELSE IF RA!BehindRefused(r) THEN "skip"
  ELSE IF ~diverged /\ Ev.got = r.ctrs /\ Cause(r, want) \in Classes THEN Cause(r, want)
  ELSE "reject"

TBuild == RA!Build(Ev.k, Ev.cx) /\ UNCHANGED <<diverged>> /\ Same
TFill ==
  LET g == Ev.g  c == groups[g].cx  rec == NewRec(g, Ev.plain) IN
  /\ groups' = Append(groups, [rec EXCEPT !.ctrs = Ev.ctrs])        \* what the implementation really assigned
  /\ cache' = [cache EXCEPT ![c] = RA!Base(c) + groups[g].n]
  /\ ep' = [ep EXCEPT ![c] = RA!EpAfter(c, groups[g].n, Len(groups) + 1, FALSE)]
  /\ diverged' = (diverged \/ rec.ctrs # Ev.ctrs)
  /\ UNCHANGED <<chainCtr, mempool, nctx, accSet, refSet, lastInj>> /\ Same
TAutofail == RA!FailCore(Ev.g) /\ UNCHANGED <<chainCtr, mempool, nctx, accSet, refSet, lastInj, diverged>> /\ Same
TInject ==
  LET r == groups[Ev.g]  v == Verdict(r)  acc == Ev.accepted IN
  /\ IF v = "ok" THEN TRUE
     ELSE IF v = "skip" THEN PrintT(<<"INFO", "SKIP", tid, l>>)
     ELSE PrintT(<<"INFO", "DEV", tid, l, v>>)
  /\ cache' = [cache EXCEPT ![r.cx] = None] /\ ep' = [ep EXCEPT ![r.cx] = RA!EmptyEp]
  /\ mempool' = IF acc THEN Append(mempool, Ev.got) ELSE mempool
  /\ accSet' = IF acc THEN accSet \cup {Ev.g} ELSE accSet
  /\ refSet' = IF acc THEN refSet ELSE refSet \cup {Ev.g}
  /\ lastInj' = Ev.g
  /\ diverged' = (diverged \/ Ev.got # r.ctrs)
  /\ UNCHANGED <<chainCtr, nctx, groups>> /\ Same
TBake == RA!Bake /\ UNCHANGED <<diverged>> /\ Same

Reject(clause, info) == PrintT(<<"REJECT", tid, l, clause, Ev, info>>) /\ TLCSet(1, TLCGet(1) + 1) /\ NextTrace

Next ==
  /\ tid <= Len(Traces)
  /\ IF l > Len(Traces[tid]) THEN NextTrace
     ELSE IF ~Fits THEN Reject("recorder", <<chainCtr, RA!Pending, lastInj, Len(groups)>>)
     ELSE IF Ev.ev = "inject" /\ Verdict(groups[Ev.g]) = "reject"
          THEN Reject("counters", <<"as-coded", groups[Ev.g].ctrs, "diverged", diverged, "cause", Cause(groups[Ev.g], Ev.want)>>)
     ELSE /\ l' = l + 1
          /\ CASE Ev.ev = "build" -> TBuild
               [] Ev.ev = "fill" -> TFill
               [] Ev.ev = "autofail" -> TAutofail
               [] Ev.ev = "inject" -> TInject
               [] Ev.ev = "bake" -> TBake

Spec == Init /\ [][Next]_tvars
Accepted == TLCGet(1) = 0
=============================================================================
