--------------------------- MODULE OpReceiptMempool ---------------------------
(* mempool.pending_operations (src/pytezos/rpc/shell.py, PendingOperationsQuery.__getitem__ / flatten and
   make_operation_result): the node lists the pending operations by category; pytezos returns an entry
   "dressed as a receipt", {metadata: {operation_result: {status: <category>, errors: ...}}, hash, branch,
   contents, ...}.  One action per entry scanned.  Growth of the specification; companion of OpReceipt.tla.

   The node's answer: a sequence of categories (in the node's order), each a sequence of entries
   <<hash, form, nerr>>: form "dict" = {hash, branch, contents, signature, error?} (all current nodes),
   form "pair" = [hash, {branch, contents, signature, error?}] (answers of the retired version 0 for the
   categories other than applied); nerr = number of errors of the entry, -1 = no error field.
   Hashes are unique in a mempool.  Error k of operation h is the number 10 * h + k. *)
EXTENDS Integers, Sequences, FiniteSets, TLC
CONSTANTS Cats,          \* the categories, as a set of <<position, name>>
          Hashes, MaxOps, Nerrs
VARIABLES pool,          \* sequence (by category position) of sequences of entries
          mode, target,  \* "get" with a hash looked for (possibly absent) | "flatten"
          pc, c, k, out
vars == <<pool, mode, target, pc, c, k, out>>
NCats == Cardinality(Cats)
CatName(i) == (CHOOSE x \in Cats : x[1] = i)[2]
AppliedLike(n) == n \in {"applied", "validated"}

RECURSIVE Flat(_, _)
Flat(p, i) == IF i > Len(p) THEN <<>> ELSE LET rest == Flat(p, i + 1) IN p[i] \o rest
HashesOf(p) == [n \in 1..Len(Flat(p, 1)) |-> Flat(p, 1)[n][1]]
Distinct(s) == \A a, b \in DOMAIN s : a # b => s[a] # s[b]
EntriesFor(i) == IF AppliedLike(CatName(i)) THEN {<<h, "dict", -1>> : h \in Hashes}
                 ELSE {<<h, f, n>> : h \in Hashes, f \in {"dict", "pair"}, n \in Nerrs \cup {-1}}
\* the pools are built category by category over the hashes still unused, so that the bound prunes early
RECURSIVE CatSeqs(_, _, _)
CatSeqs(i, H, n) ==
  IF n = 0 \/ H = {} THEN {<<>>}
  ELSE {<<>>} \cup UNION {{<<e>> \o r : r \in CatSeqs(i, H \ {e[1]}, n - 1)} : e \in {x \in EntriesFor(i) : x[1] \in H}}
RECURSIVE Pools(_, _, _)
Pools(i, H, n) ==
  IF i > NCats THEN {<<>>}
  ELSE UNION {{<<s>> \o r : r \in Pools(i + 1, H \ {s[j][1] : j \in DOMAIN s}, n - Len(s))} : s \in CatSeqs(i, H, n)}
Universe == Pools(1, Hashes, MaxOps)
ASSUME \A p \in Universe : Len(Flat(p, 1)) <= MaxOps /\ Distinct(HashesOf(p))

Ids(h, n) == IF n <= 0 THEN <<>> ELSE [j \in 1..n |-> 10 * h + j]
\* what the code makes of one entry: <<hash, status, errors or <<-1>> for "no errors field", where the node's error field stays>>
\* DEVIATION M1 (named, modelled as coded): the errors of a "dict" entry are not moved into operation_result.errors, they stay
\*   under the entry's own key `error`; only "pair" entries get operation_result.errors (present even when the node sent none).
Dressed(e, i) == IF e[2] = "dict" THEN <<e[1], CatName(i), <<-1>>, IF e[3] >= 0 THEN "top" ELSE "none">>
                 ELSE <<e[1], CatName(i), Ids(e[1], e[3]), "none">>
\* DEVIATION M2 (named, modelled as coded; DEFECT): __getitem__ calls dict.pop1 (a typo of pop) on a "pair" entry, so looking
\*   up an operation the node listed in that form ends in AttributeError instead of returning it.
Crash == <<0, "AttributeError", <<-1>>, "none">>
NotFound == <<0, "StopIteration", <<-1>>, "none">>

Init == /\ pool \in Universe
        /\ \/ mode = "get" /\ target \in Hashes
           \/ mode = "flatten" /\ target = 0
        /\ pc = "scan" /\ c = 1 /\ k = 1 /\ out = <<>>
Scan ==
  /\ pc = "scan"
  /\ IF c > Len(pool) THEN /\ pc' = "done" /\ out' = (IF mode = "get" THEN <<NotFound>> ELSE out) /\ UNCHANGED <<c, k>>
     ELSE IF k > Len(pool[c]) THEN c' = c + 1 /\ k' = 1 /\ UNCHANGED <<pc, out>>
     ELSE LET e == pool[c][k] IN
          IF mode = "flatten" THEN out' = Append(out, Dressed(e, c)) /\ k' = k + 1 /\ UNCHANGED <<pc, c>>
          ELSE IF e[1] = target
               THEN /\ out' = <<IF e[2] = "pair" THEN Crash ELSE Dressed(e, c)>> /\ pc' = "done" /\ UNCHANGED <<c, k>>
               ELSE k' = k + 1 /\ UNCHANGED <<pc, c, out>>
  /\ UNCHANGED <<pool, mode, target>>
Next == Scan
Spec == Init /\ [][Next]_vars

Done == pc = "done"
Where(h) == CHOOSE ij \in (1..Len(pool)) \X (1..MaxOps) : ij[2] <= Len(pool[ij[1]]) /\ pool[ij[1]][ij[2]][1] = h
Present(h) == \E n \in DOMAIN HashesOf(pool) : HashesOf(pool)[n] = h
\* looking an operation up gives that operation, under the category the node listed it in; an unknown hash is refused
GetFindsIt ==
  Done /\ mode = "get" =>
    /\ Len(out) = 1
    /\ (~Present(target) <=> out[1] = NotFound)
    /\ (Present(target) /\ pool[Where(target)[1]][Where(target)[2]][2] = "dict"
          => out[1][1] = target /\ out[1][2] = CatName(Where(target)[1]))
    /\ (Present(target) /\ pool[Where(target)[1]][Where(target)[2]][2] = "pair" => out[1] = Crash)     \* M2
\* flatten lists every pending operation once, in the node's order, each under its category, with its errors
FlattenListsAll ==
  Done /\ mode = "flatten" =>
    /\ [n \in DOMAIN out |-> out[n][1]] = HashesOf(pool)
    /\ \A n \in DOMAIN out : /\ out[n][2] = CatName(Where(out[n][1])[1])
                             /\ LET e == pool[Where(out[n][1])[1]][Where(out[n][1])[2]] IN
                                  e[2] = "pair" => out[n][3] = Ids(e[1], e[3])
\* the intended dressing (no M1, no M2): every entry carries its category and, if the node reported errors, those errors
Intended(h) == LET w == Where(h)
                   e == pool[w[1]][w[2]] IN <<h, CatName(w[1]), IF e[3] >= 0 THEN Ids(h, e[3]) ELSE <<-1>>, "any">>
IntendedOut == IF mode = "flatten" THEN [n \in DOMAIN HashesOf(pool) |-> Intended(HashesOf(pool)[n])]
               ELSE IF Present(target) THEN <<Intended(target)>> ELSE <<NotFound>>
\* the code as it stands and the intent differ only by M1 / M2
OnlyNamedDeviations ==
  Done => /\ Len(out) = Len(IntendedOut)
          /\ \A n \in DOMAIN out :
               \/ out[n] = Crash /\ mode = "get" /\ pool[Where(target)[1]][Where(target)[2]][2] = "pair"                      \* M2
               \/ /\ out[n][1] = IntendedOut[n][1] /\ out[n][2] = IntendedOut[n][2]
                  /\ \/ out[n][3] = IntendedOut[n][3]
                     \/ out[n][3] = <<-1>> /\ out[n][4] = "top"                                                                \* M1
                     \/ out[n][3] = <<>> /\ IntendedOut[n][3] = <<-1>>     \* a "pair" entry without errors gets an empty list
\* DEVIATION M3 (named, as coded): the dressed entry still has `contents` (without metadata), and OperationResult walks the
\*   contents, so OperationResult.is_applied(entry) is TRUE and errors(entry) is empty whatever the category says.
ReceiptViewApplied(e) == TRUE
Export == Done => PrintT(<<"OUT", pool, mode, target, out, IntendedOut>>)
=============================================================================
