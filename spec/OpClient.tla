------------------------------ MODULE OpClient ------------------------------
(* C25 - counters of injected operation groups.

   Two things are written down here, and kept apart:

   (1) The PROPERTY (ideal), independent of the code: when a group is injected, its manager
       counters must be  chainCtr + Pending + 1, +2, ...  (`want` in the log; `CountersOK`).
       The simulated node accepts an injection iff this holds (`accepted`).

   (2) The client AS IT IS CODED (pytezos/context/impl.py get_counter / get_counter_offset /
       reset, operation/group.py fill / autofill / inject / send), as a state machine:
         - every ExecutionContext has a cached counter (`cache[c]`, None = not loaded);
           client.operation()/operation_group()/bulk() create a NEW context, groups derived
           from a group (g.operation(), fill, autofill, sign) share the group's context;
         - fill(): each content takes get_counter(): loads the chain counter only if nothing
           is cached, then increments the cache;
         - autofill(): fill(), then simulation, then adds the number of the account's
           operations the mempool RPC shows under "applied"/"unprocessed" (`Visible`);
           a failing simulation raises AFTER fill() consumed the counters;
         - inject(): context.reset() first (cache := None), then the POST;
         - send() = autofill + sign + inject.
       This machine is the *deviation model* of DESIGN 3.5: TLC shows where it leaves the
       ideal (`CountersOK` is violated - run as a separate configuration), names the cause of
       every departure (`Cause`) and shows that there are no other departures
       (`CountersOKmodDev`).  Leg B requires pytezos to produce either the ideal counters or
       exactly the counters of this machine.

   Domain (DESIGN C25): groups are injected in the order in which they were filled, each at
   most once (`g > lastInj`); a filled group may be abandoned.  An injection of a group that
   was filled while an earlier group was outstanding which the node later REFUSED is outside
   the compared domain ("behind-refused-injection": no fill-time assignment can be right). *)
EXTENDS Integers, Sequences, FiniteSets, TLC
CONSTANTS Families,     \* set of bound records; Init picks one ("separate configurations, one source of truth"):
                        \*   groups  bound on client-side group objects (built + filled)
                        \*   batches set of group sizes (contents per group)
                        \*   acts    enabled calls, a subset of {"fill", "autofill", "autofail", "send", "inject", "bake"}
                        \*   built   bound on built (unfilled) groups
                        \*   calls   history length, builds not counted
                        \*   ctx     number of ExecutionContexts (client.operation() calls / root groups)
                        \*   chain0  initial account counter
                        \*   key     "applied": legacy node; "validated": current Octez (>= v19) mempool RPC; "split": current node, oldest pending operation
                        \*           classified ("validated"), the later ones only received ("unprocessed") - all of them hold counters
          Repaired      \* deviations of the as-coded machine that have been repaired in the code under test:
                        \* a subset of {"validated-mempool", "failed-simulation"} ({} = the tree as found)
None == -1

VARIABLES chainCtr,    \* account counter on the node (head context)
          mempool,     \* sequence of pending groups (each = sequence of counters)
          nctx,        \* contexts created so far
          cache,       \* [1..MaxCtx -> None or last used counter]   ExecutionContext.counter
          ep,          \* per context, since its last reset: counters burnt by failed simulations,
                       \* groups whose contents are included in the cache, chain counter when it was loaded
          groups,      \* client side group objects
          accSet, refSet, \* injected groups: accepted / refused by the node
          log,         \* injections: what was sent (got), what the property demands (want), ...
          calls, lastInj, hist,
          fam          \* the bounds of this behaviour (never changes)
vars == <<chainCtr, mempool, nctx, cache, ep, groups, accSet, refSet, log, calls, lastInj, hist, fam>>
MaxGroups == fam.groups
Batches == fam.batches
Acts == fam.acts
MaxBuilt == fam.built
MaxCalls == fam.calls
MaxCtx == fam.ctx
Chain0 == fam.chain0
MempoolKey == fam.key

RECURSIVE SumLen(_)
SumLen(s) == IF s = <<>> THEN 0 ELSE LET r == SumLen(Tail(s)) IN Len(Head(s)) + r
Pending == SumLen(mempool)
\* what ExecutionContext.get_counter_offset() counts: only the lists "applied" and "unprocessed"
SeesMempool == MempoolKey = "applied" \/ "validated-mempool" \in Repaired
Visible == IF SeesMempool THEN Pending ELSE 0
Seq1(base, k) == [j \in 1..k |-> base + j]
EmptyEp == [burnt |-> 0, fills |-> {}, chain0 |-> None]

Init == /\ fam \in Families
        /\ chainCtr = Chain0 /\ mempool = <<>> /\ nctx = 0
        /\ cache = [c \in 1..MaxCtx |-> None] /\ ep = [c \in 1..MaxCtx |-> EmptyEp]
        /\ groups = <<>> /\ accSet = {} /\ refSet = {} /\ log = <<>>
        /\ calls = 0 /\ lastInj = 0 /\ hist = <<>>

Blank(k, c) == [n |-> k, cx |-> c, ctrs |-> <<>>, src |-> 0, plain |-> FALSE, pend |-> 0, burnt |-> 0,
                prior |-> {}, moved |-> FALSE, unacc |-> {}]

\* client.transaction(..)[.transaction(..)]* (c = nctx + 1: a new context) or root_c.transaction(..)...
Build(k, c) == /\ Len(groups) < MaxGroups /\ c <= nctx + 1 /\ c <= MaxCtx
               /\ groups' = Append(groups, Blank(k, c))
               /\ nctx' = IF c > nctx THEN c ELSE nctx
               /\ UNCHANGED <<chainCtr, mempool, cache, ep, accSet, refSet, log, lastInj>>

----------------------------------------------------------------------------
\* fill(): as coded
Base(c) == IF cache[c] = None THEN chainCtr ELSE cache[c]
Outstanding == {h \in DOMAIN groups : groups[h].ctrs # <<>> /\ h > lastInj}
NewRec(g, plain) ==
  LET c == groups[g].cx
      k == groups[g].n
      used == cache[c] # None
      mine == IF used THEN ep[c].fills ELSE {} IN
  [n |-> k, cx |-> c, ctrs |-> Seq1(Base(c) + (IF plain THEN 0 ELSE Visible), k), src |-> g, plain |-> plain,
   pend |-> Pending,
   burnt |-> IF used THEN ep[c].burnt ELSE 0,        \* counters consumed by failed simulations and still in the cache
   prior |-> mine,                                   \* outstanding groups the cached counter accounts for
   moved |-> used /\ ep[c].chain0 # chainCtr,        \* a block was applied since the cached counter was read
   unacc |-> Outstanding \ mine]                     \* outstanding groups this fill knows nothing about
EpAfter(c, k, gid, failed) ==
  LET e == IF cache[c] = None THEN [EmptyEp EXCEPT !.chain0 = chainCtr] ELSE ep[c] IN
  IF failed THEN [e EXCEPT !.burnt = @ + k] ELSE [e EXCEPT !.fills = @ \cup {gid}]

FillCore(g, plain) ==
  LET c == groups[g].cx IN
  /\ groups' = Append(groups, NewRec(g, plain))
  /\ cache' = [cache EXCEPT ![c] = Base(c) + groups[g].n]          \* NB: the mempool offset is *not* cached
  /\ ep' = [ep EXCEPT ![c] = EpAfter(c, groups[g].n, Len(groups) + 1, FALSE)]
FailCore(g) ==       \* fill() consumed the counters, then run_operation was not "applied": autofill raises
  LET c == groups[g].cx IN
  IF "failed-simulation" \in Repaired THEN UNCHANGED <<cache, ep, groups>>
  ELSE /\ cache' = [cache EXCEPT ![c] = Base(c) + groups[g].n]
       /\ ep' = [ep EXCEPT ![c] = EpAfter(c, groups[g].n, 0, TRUE)]
       /\ UNCHANGED groups

Fill(g) == /\ Len(groups) < MaxGroups /\ groups[g].ctrs = <<>>
           /\ FillCore(g, TRUE)
           /\ UNCHANGED <<chainCtr, mempool, nctx, accSet, refSet, log, lastInj>>
Autofill(g, simOK) ==
  /\ Len(groups) < MaxGroups /\ groups[g].ctrs = <<>>
  /\ IF simOK THEN FillCore(g, FALSE) ELSE FailCore(g)
  /\ UNCHANGED <<chainCtr, mempool, nctx, accSet, refSet, log, lastInj>>

----------------------------------------------------------------------------
\* the causes of a departure from the ideal, in the order in which they are tested
OutstandingAtFill(r) == r.prior \cup r.unacc
BehindRefused(r) == \E h \in OutstandingAtFill(r) : h \in refSet
Cause(r, want) ==
  IF r.ctrs = want THEN "ok"
  ELSE IF r.burnt > 0 THEN "stale-cache-after-failed-simulation"
  ELSE IF \E h \in r.prior : h \notin (accSet \cup refSet) THEN "stale-cache-after-abandoned-fill"
  ELSE IF r.plain /\ r.pend > 0 THEN "plain-fill-with-nonempty-mempool"
  ELSE IF ~r.plain /\ r.pend > 0 /\ ~SeesMempool THEN "autofill-ignores-validated-mempool"
  ELSE IF r.moved THEN "stale-cache-after-block"
  ELSE IF \E h \in r.unacc : h \in accSet /\ groups[h].cx = r.cx THEN "inject-between-pipelined-fills"
  ELSE IF \E h \in r.unacc : h \in accSet THEN "pipelined-fills-in-separate-contexts"
  ELSE IF BehindRefused(r) THEN "behind-refused-injection"
  ELSE "unexplained"
Flagged(r) == \/ r.burnt > 0
              \/ \E h \in r.prior : h \notin (accSet \cup refSet)
              \/ r.pend > 0 /\ (r.plain \/ ~SeesMempool)
              \/ r.moved
              \/ \E h \in r.unacc : h \in accSet
              \/ BehindRefused(r)

\* inject() of the group object r with identity id: context.reset() first, then POST; the node accepts iff
\* the counters are the next ones
DoInject(r, id) ==
  LET want == Seq1(chainCtr + Pending, r.n)
      acc == r.ctrs = want IN
  /\ cache' = [cache EXCEPT ![r.cx] = None]
  /\ ep' = [ep EXCEPT ![r.cx] = EmptyEp]
  /\ log' = Append(log, [at |-> calls + 1, g |-> id, got |-> r.ctrs, want |-> want, accepted |-> acc,
                         cls |-> Cause(r, want), flagged |-> Flagged(r), behind |-> BehindRefused(r)])
  /\ mempool' = IF acc THEN Append(mempool, r.ctrs) ELSE mempool
  /\ accSet' = IF acc THEN accSet \cup {id} ELSE accSet
  /\ refSet' = IF acc THEN refSet ELSE refSet \cup {id}
  /\ lastInj' = id
  /\ UNCHANGED <<chainCtr, nctx>>

InjectCore(g) == groups[g].ctrs # <<>> /\ DoInject(groups[g], g) /\ UNCHANGED groups
Inject(g) == g > lastInj /\ InjectCore(g)          \* domain: injection follows fill order, once

\* send(): autofill, sign, inject in one call (a failing simulation inside send() is Autofill(g, FALSE))
Send(g) ==
  /\ Len(groups) < MaxGroups /\ groups[g].ctrs = <<>>
  /\ groups' = Append(groups, NewRec(g, FALSE))
  /\ DoInject(NewRec(g, FALSE), Len(groups) + 1)

Bake == /\ mempool # <<>> /\ chainCtr' = chainCtr + Pending /\ mempool' = <<>>
        /\ UNCHANGED <<nctx, cache, ep, groups, accSet, refSet, log, lastInj>>

\* One step of a history.  Building a group touches nothing but the new object (and possibly a new
\* context), so it commutes with every other call: histories are enumerated with all builds first and in
\* canonical order (by context, then size) - a sound reduction, not a restriction.  `calls` counts the other calls.
Step(e) == calls < MaxCalls /\ calls' = calls + 1 /\ hist' = Append(hist, e) /\ UNCHANGED fam
BuildOrder(k, c) == IF groups = <<>> THEN TRUE ELSE LET l == groups[Len(groups)] IN l.cx < c \/ (l.cx = c /\ l.n <= k)
ABuild == \E k \in Batches, c \in 1..MaxCtx :
            /\ calls = 0 /\ Len(groups) < MaxBuilt /\ BuildOrder(k, c) /\ Build(k, c)
            /\ hist' = Append(hist, <<"build", k, c>>) /\ UNCHANGED <<calls, fam>>
AFill == "fill" \in Acts /\ \E g \in DOMAIN groups : Fill(g) /\ Step(<<"fill", g>>)
AAutofill == "autofill" \in Acts /\ \E g \in DOMAIN groups : Autofill(g, TRUE) /\ Step(<<"autofill", g, TRUE>>)
AAutofillFail == "autofail" \in Acts /\ \E g \in DOMAIN groups : Autofill(g, FALSE) /\ Step(<<"autofill", g, FALSE>>)
ASend == "send" \in Acts /\ \E g \in DOMAIN groups : Send(g) /\ Step(<<"send", g>>)
AInject == "inject" \in Acts /\ \E g \in DOMAIN groups : Inject(g) /\ Step(<<"inject", g>>)
ABake == "bake" \in Acts /\ Bake /\ Step(<<"bake">>)
Next == ABuild \/ AFill \/ AAutofill \/ AAutofillFail \/ ASend \/ AInject \/ ABake
Spec == Init /\ [][Next]_vars

----------------------------------------------------------------------------
\* the property as stated (ideal) - expected to be VIOLATED by the as-coded machine
CountersOK == \A i \in DOMAIN log : log[i].got = log[i].want
\* what holds for the code as it is: every departure has one of the named causes ...
CountersOKmodDev == \A i \in DOMAIN log : log[i].cls # "unexplained"
\* ... and an injection none of whose causes is present is accepted by the node
DevIsReal == \A i \in DOMAIN log : ~log[i].flagged => log[i].accepted
NodeRule == \A i \in DOMAIN log : log[i].accepted <=> (log[i].got = log[i].want)
\* the mempool holds consecutive counters right after the chain counter (the node's own invariant)
RECURSIVE Flat(_)
Flat(s) == IF s = <<>> THEN <<>> ELSE LET r == Flat(Tail(s)) IN Head(s) \o r
MempoolConsecutive == Flat(mempool) = Seq1(chainCtr, Pending)
\* one configuration per class makes TLC print its shortest history ("No_" invariants are expected to fail)
NoClass(c) == \A i \in DOMAIN log : log[i].cls # c
No_failedsim == NoClass("stale-cache-after-failed-simulation")
No_abandoned == NoClass("stale-cache-after-abandoned-fill")
No_plainfill == NoClass("plain-fill-with-nonempty-mempool")
No_validated == NoClass("autofill-ignores-validated-mempool")
No_block == NoClass("stale-cache-after-block")
No_injbetween == NoClass("inject-between-pipelined-fills")
No_sepctx == NoClass("pipelined-fills-in-separate-contexts")
=============================================================================
