------------------------------ MODULE MichEntry ------------------------------
(* Entrypoints of a contract parameter type, as Tezos defines them, and the two
   conversions between a full parameter value and an (entrypoint, argument) pair
   (src/pytezos/michelson/sections/parameter.py: list_entrypoints, to_parameters,
   from_parameters).  Property C13.

   Parameter types (field annotations only, "" = no annotation):
       <<"or", annot, left, right>>        <<"leaf", annot, base>>     base \in {"int","string","unit","address","bigmap"}
   Values are MichSem values:  <<"l",x>> <<"r",x>> <<"i",n>> <<"s",bytes>> <<"unit">>.

   Tezos: every node that is reachable from the root through `or` nodes only and that
   carries a field annotation is an entrypoint of that name whose argument type is the
   node's type; entrypoint names are unique (a type with a duplicate is ill-formed and is
   not in the universe); `default` denotes the whole parameter unless a node is named
   default, and if a node is named default every leaf must lie in some entrypoint (Tezos
   rejects the type otherwise: "unreachable entrypoint"; such types are not in the universe
   either).  The whole parameter ("root") is listed once.  Its name is the root's own
   annotation if it has one, else "default" if that name is free, else the root cannot be
   addressed by a Tezos name at all: the model calls it "<root>" and the name an
   implementation invents for it is not part of the property.

   Split walks down a full value constructor by constructor and remembers the deepest
   annotated node passed (else the root); Join wraps an argument in the Left/Right path of
   its entrypoint.  One action per constructor. *)
EXTENDS Integers, Sequences, FiniteSets, TLC
CONSTANTS MaxDepth,     \* depth bound of the `or` trees (0 = a non-union root)
          Names,        \* pool of annotations, each used at most once per type
          Bases,        \* sequence of leaf base types, dealt to the leaves left to right
          Rots          \* set of offsets into Bases at which dealing starts

\* ---------------------------------------------------------------- universe
RECURSIVE Shapes(_, _)
Shapes(d, S) ==   \* annotated trees of depth <= d, annotations from S, no name twice; leaf bases still open
  LET leaves == {<<"leaf", a, "?">> : a \in S \cup {""}}
  IN IF d = 0 THEN leaves
     ELSE leaves \cup UNION {UNION {LET SL == Shapes(d - 1, Sl)
                                        SR == Shapes(d - 1, (S \ {a}) \ Sl)
                                    IN {<<"or", a, l, r>> : l \in SL, r \in SR}
                                    : Sl \in SUBSET (S \ {a})}
                             : a \in S \cup {""}}
RECURSIVE Rebase(_, _)
Rebase(t, i) ==   \* <<t with bases dealt round-robin from index i, next index>>
  IF t[1] = "leaf" THEN << <<"leaf", t[2], Bases[(i % Len(Bases)) + 1]>>, i + 1 >>
  ELSE LET L == Rebase(t[3], i)
           R == Rebase(t[4], L[2])
       IN << <<"or", t[2], L[1], R[1]>>, R[2] >>

LeafVals(b) == CASE b = "int" -> {<<"i", -1>>, <<"i", 5>>}
                 [] b = "string" -> {<<"s", <<>>>>, <<"s", <<120>>>>}
                 [] b = "unit" -> {<<"unit">>}
                 \* leaves whose rendering depends on the mode (address) or on how the value is given (big_map int string, given by value)
                 [] b = "address" -> {<<"a", <<1>> \o [j \in 1..20 |-> 7] \o <<0>>, <<109, 105, 110, 116>>>>, <<"a", <<0, 0>> \o [j \in 1..20 |-> 9], <<>>>>}
                 [] b = "bigmap" -> {<<"map", <<>>>>, <<"map", << << <<"i", 1>>, <<"s", <<97>>>> >> >>>>}
RECURSIVE Vals(_)
Vals(t) == IF t[1] = "leaf" THEN LeafVals(t[3])
           ELSE {<<"l", x>> : x \in Vals(t[3])} \cup {<<"r", x>> : x \in Vals(t[4])}
RECURSIVE HasType(_, _)
HasType(v, t) == IF t[1] = "leaf" THEN v \in LeafVals(t[3])
                 ELSE \/ v[1] = "l" /\ HasType(v[2], t[3])
                      \/ v[1] = "r" /\ HasType(v[2], t[4])

\* ---------------------------------------------------------------- entrypoints (declarative)
RECURSIVE Branches(_, _)
Branches(t, p) ==   \* <<name, path, type>> of every annotated node strictly below t, through `or` nodes only
  IF t[1] # "or" THEN <<>>
  ELSE LET Sub(c, q) == (IF c[2] # "" THEN << <<c[2], q, c>> >> ELSE <<>>) \o Branches(c, q)
       IN Sub(t[3], Append(p, "l")) \o Sub(t[4], Append(p, "r"))
BranchNames(t) == {Branches(t, <<>>)[i][1] : i \in DOMAIN Branches(t, <<>>)}
RootName(t) == IF t[2] # "" THEN t[2] ELSE IF "default" \notin BranchNames(t) THEN "default" ELSE "<root>"
Table(t) == Append(Branches(t, <<>>), <<RootName(t), <<>>, t>>)
RECURSIVE AllReachable(_, _)   \* every leaf lies in (or is) an annotated node; r: an ancestor is annotated
AllReachable(t, r) == LET r2 == r \/ t[2] # "" IN
                      IF t[1] = "or" THEN AllReachable(t[3], r2) /\ AllReachable(t[4], r2) ELSE r2
WellFormed(t) == (t[2] = "default" \/ "default" \in BranchNames(t)) => AllReachable(t, FALSE)
Universe == {t \in {Rebase(s, r)[1] : s \in Shapes(MaxDepth, Names), r \in Rots} : WellFormed(t)}

RECURSIVE WrapD(_, _)
WrapD(p, a) == IF p = <<>> THEN a ELSE <<Head(p), WrapD(Tail(p), a)>>
RECURSIVE Follow(_, _)   \* the sub-value of v at path p; <<"#none">> when v does not take that path
Follow(v, p) == IF p = <<>> THEN v ELSE IF v[1] = Head(p) THEN Follow(v[2], Tail(p)) ELSE <<"#none">>

\* ---------------------------------------------------------------- the conversions, step by step
VARIABLES T, tab, mode, inp, pc, path, acc, node, rest, best
vars == <<T, tab, mode, inp, pc, path, acc, node, rest, best>>
NameOf(e) == e[1]
RootEntry == tab[Len(tab)]

Init == /\ T \in Universe /\ tab = Table(T)
        /\ mode = "list" /\ inp = <<>> /\ pc = "pick"
        /\ path = <<>> /\ acc = <<>> /\ node = <<>> /\ rest = <<>> /\ best = <<>>
\* choose what to convert: a full value (to_parameters first) or an (entrypoint, argument) pair (from_parameters first)
PickValue == /\ pc = "pick"
             /\ \E v \in Vals(T) : /\ inp' = <<v>> /\ acc' = v /\ rest' = v /\ best' = <<NameOf(RootEntry), v>>
             /\ mode' = "split" /\ pc' = "descend" /\ node' = T
             /\ UNCHANGED <<T, tab, path>>
PickPair == /\ pc = "pick"
            /\ \E i \in DOMAIN tab : \E a \in Vals(tab[i][3]) :
                   /\ inp' = <<tab[i][1], a>> /\ path' = tab[i][2] /\ acc' = a
            /\ mode' = "join" /\ pc' = "wrap"
            /\ UNCHANGED <<T, tab, node, rest, best>>
\* from_parameters: wrap the argument, innermost constructor first
Wrap == /\ pc = "wrap"
        /\ IF path = <<>>
           THEN /\ pc' = "descend" /\ node' = T /\ rest' = acc /\ best' = <<NameOf(RootEntry), acc>>
                /\ UNCHANGED <<path, acc>>
           ELSE /\ acc' = <<path[Len(path)], acc>> /\ path' = SubSeq(path, 1, Len(path) - 1)
                /\ UNCHANGED <<pc, node, rest, best>>
        /\ UNCHANGED <<T, tab, mode, inp>>
\* to_parameters: one constructor down; remember the deepest annotated node passed
Descend == /\ pc = "descend"
           /\ IF node[1] = "leaf"
              THEN pc' = "done" /\ UNCHANGED <<node, rest, best>>
              ELSE LET c == IF rest[1] = "l" THEN node[3] ELSE node[4] IN
                   /\ node' = c /\ rest' = rest[2]
                   /\ best' = IF c[2] # "" THEN <<c[2], rest[2]>> ELSE best
                   /\ UNCHANGED pc
           /\ UNCHANGED <<T, tab, mode, inp, path, acc>>
Next == PickValue \/ PickPair \/ Wrap \/ Descend
Spec == Init /\ [][Next]_vars

\* ---------------------------------------------------------------- C13
PathIn(tb, n) == tb[CHOOSE i \in DOMAIN tb : tb[i][1] = n][2]
Denotes(tb, n, a) == WrapD(PathIn(tb, n), a)          \* = JoinD(T, n, a)
NamesUnique == pc = "pick" => \A i, j \in DOMAIN tab : i # j => tab[i][1] # tab[j][1]
\* value -> pair -> value
SplitJoin == pc = "done" =>
                /\ \E i \in DOMAIN tab : tab[i][1] = best[1]
                /\ Follow(acc, PathIn(tab, best[1])) = best[2]
                /\ Denotes(tab, best[1], best[2]) = acc
\* Split picks the deepest entrypoint the value lies in
SplitDeepest == pc = "done" =>
                \A i \in DOMAIN tab : Follow(acc, tab[i][2]) # <<"#none">> => Len(tab[i][2]) <= Len(PathIn(tab, best[1]))
\* pair -> value -> pair: the built value is well typed, holds the argument at the entrypoint's place,
\* and the pair it is split into denotes the same full value
JoinSplit == pc = "done" /\ mode = "join" =>
                /\ acc = Denotes(tab, inp[1], inp[2])
                /\ HasType(acc, T)
                /\ Follow(acc, PathIn(tab, inp[1])) = inp[2]
                /\ Denotes(tab, best[1], best[2]) = Denotes(tab, inp[1], inp[2])
SplitTyped == pc = "done" /\ mode = "split" => HasType(acc, T)
\* Leg B export (an invariant is evaluated once per distinct state)
Emit == /\ pc = "pick" => PrintT(<<"OUT", "list", T, tab>>)
        /\ pc = "done" => PrintT(<<"OUT", mode, T, inp, acc, best>>)
=============================================================================
