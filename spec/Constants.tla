----------------------------- MODULE Constants -----------------------------
(* Expansion of registered global constants (ExecutionContext.register_global_constant /
   resolve_global_constants, src/pytezos/context/impl.py).  Property C33.

   Micheline trees are tag-first tuples:
     <<"int", n>>   <<"string", payload>>   <<"prim", name, <<args>>, <<annots>>>>   <<"seq", <<items>>>>
   A string payload is <<"lit", text>> or <<"hash", e>>: the Tezos expression hash of the
   expression e, an uninterpreted injective constructor (the replay concretises it as the
   base58 "expr" encoding of blake2b-256 of the binary Micheline of e).  A reference to a
   global constant is the node  constant "<hash of e>"  = Ref(e).  The registry is the set of
   registered expressions; looking up <<"hash", e>> succeeds iff e is registered and yields e.
   Because a hash atom contains the expression it names, reference graphs are acyclic.

   The machine walks the tree in pre-order with a cursor, one node per step; a reference is
   replaced by the registered body and the cursor stays, so that the body is visited too.
   The property is stated declaratively (Subst / Unknown / SameOutside) and TLC checks that
   the walk ends in exactly that result. *)
EXTENDS Integers, Sequences, FiniteSets, TLC
CONSTANTS MaxReg,      \* at most this many registered constants
          Wide         \* TRUE: the larger sets of alternatives

IntE(v)    == <<"int", v>>
Lit(s)    == <<"string", <<"lit", s>>>>
HashStr(e) == <<"string", <<"hash", e>>>>
P(name, args, annots) == <<"prim", name, args, annots>>
P0(name)  == P(name, <<>>, <<>>)
Sq(items) == <<"seq", items>>
Ref(e)    == P("constant", <<HashStr(e)>>, <<>>)

IsRef(t)  == t[1] = "prim" /\ t[2] = "constant"
Target(t) == t[3][1][2][2]           \* the expression whose hash a reference names
Kids(t)   == IF t[1] = "prim" THEN t[3] ELSE IF t[1] = "seq" THEN t[2] ELSE <<>>
WithKids(t, ks) == IF t[1] = "prim" THEN <<"prim", t[2], ks, t[4]>> ELSE IF t[1] = "seq" THEN <<"seq", ks>> ELSE t

\* ---------------- what C33 demands ----------------
RECURSIVE Unknown(_, _)      \* some reference reachable from t, possibly through registered bodies, names an unregistered hash
Unknown(reg, t) == IF IsRef(t) THEN Target(t) \notin reg \/ Unknown(reg, Target(t))
                   ELSE \E j \in 1..Len(Kids(t)) : Unknown(reg, Kids(t)[j])
RECURSIVE Subst(_)           \* every reference replaced by the (expanded) expression it names
Subst(t) == IF IsRef(t) THEN Subst(Target(t))
            ELSE LET ks == Kids(t) IN WithKids(t, [j \in 1..Len(ks) |-> Subst(ks[j])])
RECURSIVE HasConst(_)
HasConst(t) == IsRef(t) \/ \E j \in 1..Len(Kids(t)) : HasConst(Kids(t)[j])
RECURSIVE SameOutside(_, _)  \* res equals pat everywhere outside the references of pat
SameOutside(pat, res) == IF IsRef(pat) THEN TRUE
                         ELSE /\ WithKids(pat, <<>>) = WithKids(res, <<>>)
                              /\ Len(Kids(pat)) = Len(Kids(res))
                              /\ \A j \in 1..Len(Kids(pat)) : SameOutside(Kids(pat)[j], Kids(res)[j])
RECURSIVE CountRefs(_)
CountRefs(t) == IF IsRef(t) THEN 1
                ELSE LET ks == Kids(t)
                         F[j \in 0..Len(ks)] == IF j = 0 THEN 0 ELSE LET c == CountRefs(ks[j]) IN F[j - 1] + c
                     IN F[Len(ks)]

\* ---------------- the bounded universe ----------------
K1 == P0("int")                                               \* a type
K2 == IntE(12345)                                              \* a value
K3 == P("pair", <<Ref(K1), P0("unit")>>, <<>>)                \* a type that references K1
K4 == P("PUSH", <<Ref(K1), Ref(K2)>>, <<>>)                   \* an instruction with references in type and data position
K5 == Sq(<<P0("DROP"), Ref(K4)>>)                             \* a code block: K5 -> K4 -> K1, K2
K6 == P("Pair", <<Ref(K2), IntE(7)>>, <<>>)                    \* a value that references K2
K7 == Sq(<<>>)                                                 \* the empty sequence: a registered expression that is "empty"
K8 == P("Pair", <<Ref(K2), Ref(K2)>>, <<>>)                   \* a body that uses the same constant twice
K9 == P("Pair", <<Ref(K6), Ref(K8)>>, <<>>)                   \* a diamond: K9 -> K6 -> K2 and K9 -> K8 -> K2 (sharing inside an acyclic graph)
KP == Sq(<<P0("IS_IMPLICIT_ACCOUNT"), P0("NAT"), P0("BYTES"), P("EMIT", <<P0("nat")>>, <<"%e">>), P0("MIN_BLOCK_TIME"), P0("SUB_MUTEZ"),
          P("VIEW", <<Lit("v"), P0("tx_rollup_l2_address")>>, <<>>), P0("OPEN_CHEST"), P0("GET_AND_UPDATE"), P0("JOIN_TICKETS"), P0("chest_key")>>)
                                                              \* the youngest primitives of the table: the hash of a constant is a hash of its bytes
Ghost == P0("nat")                                            \* never registered: its hash is unknown

SubsetsUpTo(S, b) == {R \in SUBSET S : Cardinality(R) <= b}
ScriptRegs == SubsetsUpTo({K1, K2, K3, K4, K5}, MaxReg)
DataRegs   == SubsetsUpTo({K1, K2, K6, K7}, MaxReg) \cup {{K2, K8}, {K2, K6, K8, K9}, {K2, K8, K9}, {KP}, {K2, KP}}

PushPlain == P("PUSH", <<P0("int"), IntE(12345)>>, <<>>)
ParamAlts == {P0("unit"), Ref(K1), P("pair", <<Ref(K1), P0("unit")>>, <<"%a">>), Ref(K3)}
             \cup (IF Wide THEN {P("option", <<Ref(Ghost)>>, <<>>), P("pair", <<P0("int"), P0("unit"), Ref(K1)>>, <<>>)} ELSE {})
StoreAlts == {P0("int"), Ref(K1)} \cup (IF Wide THEN {P("int", <<>>, <<":s">>)} ELSE {})
InstrAlts == {PushPlain,
              P("PUSH", <<Ref(K1), IntE(12345)>>, <<>>),
              P("PUSH", <<P0("int"), Ref(K2)>>, <<>>),
              P("PUSH", <<Ref(K1), Ref(K2)>>, <<"@v">>),
              Ref(K4),
              Sq(<<Sq(<<Ref(K4)>>)>>),
              Ref(Ghost)}
             \cup (IF Wide THEN {Sq(<<PushPlain, P("DIP", <<Sq(<<Ref(K4), P0("DROP")>>)>>, <<>>)>>),
                                 Sq(<<PushPlain, P("PUSH", <<P0("string"), HashStr(K2)>>, <<>>), P0("DROP")>>)} ELSE {})
CodeAlts == {Sq(<<P0("DROP"), ins, P("NIL", <<P0("operation")>>, <<>>), P0("PAIR")>>) : ins \in InstrAlts}
            \cup {Sq(<<Ref(K5), P("NIL", <<P0("operation")>>, <<>>), P0("PAIR")>>)}
\* references inside a view section (argument type, return type, code)
ViewAlts == {P("view", <<Lit("v"), Ref(K1), P0("int"), Sq(<<P0("CAR")>>)>>, <<>>),
             P("view", <<Lit("w"), P0("unit"), Ref(K1), Sq(<<P0("DROP"), Ref(K4)>>)>>, <<>>)}
Scripts == {Sq(<<P("parameter", <<pt>>, <<>>), P("storage", <<st>>, <<>>), P("code", <<cd>>, <<>>)>>) :
              pt \in ParamAlts, st \in StoreAlts, cd \in CodeAlts}
           \cup {Sq(<<P("parameter", <<P0("unit")>>, <<>>), P("storage", <<st>>, <<>>),
                      P("code", <<Sq(<<P0("DROP"), PushPlain, P("NIL", <<P0("operation")>>, <<>>), P0("PAIR")>>)>>, <<>>), vw>>) :
                   st \in {P0("int"), Ref(K1)}, vw \in ViewAlts}

A0 == {IntE(1), Ref(K2), Ref(K6), Ref(K7), Ref(Ghost)}
Shared == {Ref(KP), P("Pair", <<Ref(KP), Ref(K2)>>, <<>>), Ref(K8), Ref(K9), P("Pair", <<Ref(K8), Ref(K2)>>, <<>>), Sq(<<Ref(K9), Ref(K9)>>)}
A1 == A0 \cup {P("Pair", <<x, y>>, <<>>) : x \in A0, y \in A0}
         \cup {Sq(<<x, y>>) : x \in A0, y \in A0}
         \cup {P("Some", <<x>>, <<"%s">>) : x \in A0}
         \cup {Sq(<<>>), HashStr(K2), Lit("constant")}
A2 == A1 \cup {P("Elt", <<x, y>>, <<>>) : x \in A0, y \in A1 \ A0}
DataExprs == (IF Wide THEN A2 ELSE A1) \cup Shared

\* ---------------- the machine ----------------
VARIABLES fam, reg, script,        \* the input
          cur, path, pc, expansions
vars == <<fam, reg, script, cur, path, pc, expansions>>
input == <<fam, reg, script>>

Init == /\ \/ fam = "script" /\ reg \in ScriptRegs /\ script \in Scripts
           \/ fam = "data" /\ reg \in DataRegs /\ script \in DataExprs
        /\ cur = script /\ path = <<>> /\ pc = "visit" /\ expansions = 0

RECURSIVE At(_, _)
At(t, p) == IF p = <<>> THEN t ELSE At(Kids(t)[p[1]], Tail(p))
RECURSIVE Put(_, _, _)
Put(t, p, x) == IF p = <<>> THEN x
                ELSE LET ks == Kids(t)
                         sub == Put(ks[p[1]], Tail(p), x)
                     IN WithKids(t, [ks EXCEPT ![p[1]] = sub])
End == <<0>>                  \* not a path: child indices are positive
RECURSIVE Climb(_, _)
Climb(t, p) == IF p = <<>> THEN End
               ELSE LET parent == SubSeq(p, 1, Len(p) - 1)
                        idx == p[Len(p)] IN
                    IF idx < Len(Kids(At(t, parent))) THEN Append(parent, idx + 1) ELSE Climb(t, parent)
NextPath(t, p) == IF Len(Kids(At(t, p))) > 0 THEN Append(p, 1) ELSE Climb(t, p)

Visit == /\ pc = "visit"
         /\ LET node == At(cur, path) IN
            IF IsRef(node)
            THEN IF Target(node) \in reg
                 THEN cur' = Put(cur, path, Target(node)) /\ expansions' = expansions + 1 /\ UNCHANGED <<path, pc>>
                 ELSE pc' = "failed" /\ UNCHANGED <<cur, path, expansions>>
            ELSE LET nx == NextPath(cur, path) IN
                 IF nx = End THEN pc' = "done" /\ UNCHANGED <<cur, path, expansions>>
                 ELSE path' = nx /\ UNCHANGED <<cur, pc, expansions>>
         /\ UNCHANGED input
Next == Visit
Spec == Init /\ [][Next]_vars /\ WF_vars(Next)

\* ---------------- C33 ----------------
Expanded        == pc = "done" => cur = Subst(script)
NoConstantLeft  == pc = "done" => ~HasConst(cur)
RestUnchanged   == pc = "done" => SameOutside(script, cur)
FailsIffUnknown == /\ pc = "failed" => Unknown(reg, script)
                   /\ pc = "done" => ~Unknown(reg, script)
PlainUntouched  == pc = "done" /\ ~HasConst(script) => cur = script /\ expansions = 0
Terminates      == <>(pc \in {"done", "failed"})
\* Leg B export: one line per input (the replay calls a case nested when more expansions happened than the expression has references)
RECURSIVE SetToSeq(_)
SetToSeq(S) == IF S = {} THEN <<>> ELSE LET x == CHOOSE y \in S : TRUE IN <<x>> \o SetToSeq(S \ {x})
EmitDone == pc \in {"done", "failed"} =>
              PrintT(<<"OUT", fam, SetToSeq(reg), script, pc, IF pc = "done" THEN cur ELSE <<>>, expansions, CountRefs(script)>>)
=============================================================================
