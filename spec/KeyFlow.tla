------------------------------ MODULE KeyFlow ------------------------------
(* Keys, signatures, export/import and mnemonics of pytezos.crypto.key.Key with
   *symbolic* cryptography.  Properties C07 and C08.

   Cryptographic primitives are uninterpreted constructors (tag-first tuples):

     secret key      <<"sk", curve, id>>              curve in {"ed","sp","p2","bl"}
     public key      Pk(sk) = <<"pk", curve, id>>
     message         <<"msg", i>>       (the byte string; the API may be handed it as bytes,
                                         as a hex string or as a 0x-prefixed hex string)
     digest          Digest(curve, m) = <<"digest", "blake2b256", m>> for ed/sp/p2,
                                        <<"digest", "identity", m>>   for bl (BLS signs the message itself)
     signature       <<"sig", prefix, sk, digest>>    prefix = Base58 kind of the encoding
     encoded secret  <<"enc", prefix, encrypted?, body>>
     key hash        <<"pkh", prefix, <<"blake2b160", pk>>>>

   The replay harness *interprets* these constructors with implementations that are
   independent of the ones pytezos calls (hashlib, `cryptography`, own Base58Check); the
   specification contributes the scenario table and the accept / reject logic.

   Three flows share the module (constant Flows selects them):
     "sign"      Gen -> Sign(form, msgform) -> Tamper(kind) -> VerifyPrefix [-> VerifyCrypto] -> CheckSignature
     "export"    Gen -> Export(option) -> Import(passphrase) [-> Address]
     "mnemonic"  PickMnemonic -> CheckLen -> CheckWords -> CheckSum [-> Derive]                      *)
EXTENDS Naturals, Sequences, FiniteSets, TLC

CONSTANTS Flows,        \* subset of {"sign", "export", "mnemonic"}
          PassIds,      \* symbolic passphrases, e.g. {1, 2}
          WordCounts,   \* mnemonic lengths tried, e.g. {11, 12, 13, 15, 18, 21, 24, 25}
          AsCoded       \* FALSE: the ideal.  TRUE: deviation Dev_SigPrefix (what key.py does today), used
                        \* only to let TLC exhibit the design defect "no encoding for a generic BLS signature"

Curves   == {"ed", "sp", "p2", "bl"}
Forms    == {"curve", "generic"}
MsgForms == {"bytes", "hex", "0xhex"}
None     == <<"none">>

---------------------------------------------------------------------------
(* symbolic cryptography *)
Sk(c, i)     == <<"sk", c, i>>
Pk(sk)       == <<"pk", sk[2], sk[3]>>
CurveOf(k)   == k[2]
Msg(i)       == <<"msg", i>>
Digest(c, m) == <<"digest", IF c = "bl" THEN "identity" ELSE "blake2b256", m>>

(* Base58 kinds of signatures and their payload lengths (Tezos base58 table) *)
SigKinds == {"edsig", "spsig1", "p2sig", "sig", "BLsig"}
SigKindLen(p) == IF p = "BLsig" THEN 96 ELSE 64
SigLen(c) == IF c = "bl" THEN 96 ELSE 64
CurveSigKind(c) == CASE c = "ed" -> "edsig" [] c = "sp" -> "spsig1" [] c = "p2" -> "p2sig" [] c = "bl" -> "BLsig"

(* The generic kind `sig` holds 64 bytes; a 96-byte BLS signature has exactly one
   encoding, BLsig.  So the generic form of a BLS signature is its BLsig form. *)
SigPrefix(c, form) == IF form = "generic" /\ c # "bl" THEN "sig" ELSE CurveSigKind(c)
(* as coded today (key.py, Key.sign): generic -> `sig` whatever the curve *)
Dev_SigPrefix(c, form) == IF form = "generic" THEN "sig" ELSE CurveSigKind(c)
ThePrefix(c, form) == IF AsCoded THEN Dev_SigPrefix(c, form) ELSE SigPrefix(c, form)

SigTerm(sk, m, form) == <<"sig", ThePrefix(CurveOf(sk), form), sk, Digest(CurveOf(sk), m)>>
SigKindOf(s) == s[2]
SignerOf(s)  == s[3]
DigestOf(s)  == s[4]
(* a signature whose payload had one bit flipped: well-formed encoding, signs nothing *)
Forged(s) == <<"sig", s[2], Sk("none", 0), <<"digest", "flipped", Msg(0)>>>>

(* declarative meaning of a valid signature (the scheme's Verify) *)
Valid(pk, s, m) == Pk(SignerOf(s)) = pk /\ DigestOf(s) = Digest(CurveOf(pk), m)

(* secret key encodings *)
SkPrefix(c, o) == CASE c = "ed" -> (IF o[1] = "encrypted" THEN "edesk" ELSE "edsk")
                    [] c = "sp" -> (IF o[1] = "encrypted" THEN "spesk" ELSE "spsk")
                    [] c = "p2" -> (IF o[1] = "encrypted" THEN "p2esk" ELSE "p2sk")
                    [] c = "bl" -> (IF o[1] = "encrypted" THEN "BLesk" ELSE "BLsk")
ExportOpts(c) == {<<"plain", 0>>} \cup {<<"encrypted", p>> : p \in PassIds}
                 \cup (IF c = "ed" THEN {<<"plain64", 0>>} ELSE {})     \* Ed25519: seed (32) or full secret key (64)
PkhPrefix(c) == CASE c = "ed" -> "tz1" [] c = "sp" -> "tz2" [] c = "p2" -> "tz3" [] c = "bl" -> "tz4"
Pkh(pk) == <<"pkh", PkhPrefix(CurveOf(pk)), <<"blake2b160", pk>>>>

ValidWordCounts == {12, 15, 18, 21, 24}
(* email and passphrase are strings over a one-letter alphabet: BIP-39 salt = "mnemonic" + email + passphrase *)
Emails == {<<>>, <<1>>}
Phrases == {<<>>, <<1>>, <<1, 1>>}

---------------------------------------------------------------------------
VARIABLES flow, pc,
          key,                         \* the secret key under test
          form, msgform, sig,          \* sign flow
          tamper, vpk, vsig, vmsg, verdict, cverdict,
          opt, enc, ipass, imported, pkh, hkey,      \* export flow
          mn, accepted, dcurve, din, derived         \* mnemonic flow

vars == <<flow, pc, key, form, msgform, sig, tamper, vpk, vsig, vmsg, verdict, cverdict,
          opt, enc, ipass, imported, pkh, hkey, mn, accepted, dcurve, din, derived>>
signV == <<form, msgform, sig, tamper, vpk, vsig, vmsg, verdict, cverdict>>
expV  == <<opt, enc, ipass, imported, pkh, hkey>>
mnV   == <<mn, accepted, dcurve, din, derived>>

Init == /\ flow \in Flows /\ pc = "start" /\ key = None
        /\ form = "-" /\ msgform = "-" /\ sig = None /\ tamper = None
        /\ vpk = None /\ vsig = None /\ vmsg = None /\ verdict = "-" /\ cverdict = "-"
        /\ opt = None /\ enc = None /\ ipass = 0 /\ imported = None /\ pkh = None /\ hkey = None
        /\ mn = None /\ accepted = "-" /\ dcurve = "-" /\ din = None /\ derived = None

---------------------------------------------------------------------------
(* C07: sign flow *)
Gen(c) == /\ pc = "start" /\ flow \in {"sign", "export"}
          /\ key' = Sk(c, 1) /\ pc' = "keyed"
          /\ UNCHANGED <<flow, signV, expV, mnV>>

(* Signing needs an encoding whose payload length is the scheme's signature length *)
CanEncode(c, f) == SigKindLen(ThePrefix(c, f)) = SigLen(c)

Sign(f, mf) == /\ pc = "keyed" /\ flow = "sign"
               /\ CanEncode(CurveOf(key), f)
               /\ form' = f /\ msgform' = mf
               /\ sig' = SigTerm(key, Msg(1), f)        \* every message form denotes the same bytes
               /\ pc' = "signed"
               /\ UNCHANGED <<flow, key, tamper, vpk, vsig, vmsg, verdict, cverdict, expV, mnV>>

(* "twinkey": the compressed ECDSA public key with the same x and the other y parity - a valid key of somebody else
   (presented after the signer's own key has been used);  "offcurve": 33 bytes of the key kind whose x is not on the
   curve - not a key at all, so nothing verifies under it *)
TamperKinds(c) == {<<"none", "-">>, <<"msgbit", "-">>, <<"sigbit", "-">>, <<"otherkey", "-">>}
                  \cup {<<"othercurve", c2>> : c2 \in Curves \ {c}}
                  \cup (IF c \in {"sp", "p2"} THEN {<<"twinkey", "-">>, <<"offcurve", "-">>} ELSE {})

Tamper(k) == /\ pc = "signed" /\ k \in TamperKinds(CurveOf(key))
             /\ tamper' = k
             /\ vpk'  = CASE k[1] = "otherkey"   -> Pk(Sk(CurveOf(key), 2))
                          [] k[1] = "othercurve" -> Pk(Sk(k[2], 1))
                          [] k[1] = "twinkey"    -> <<"pk", CurveOf(key), 101>>      \* key ids: 1 signer, 2 other, 101 twin of the signer, 201 off-curve
                          [] k[1] = "offcurve"   -> <<"pk", CurveOf(key), 201>>
                          [] OTHER               -> Pk(key)
             /\ vsig' = IF k[1] = "sigbit" THEN Forged(sig) ELSE sig
             /\ vmsg' = IF k[1] = "msgbit" THEN Msg(2) ELSE Msg(1)
             /\ pc' = "presented"
             /\ UNCHANGED <<flow, key, form, msgform, sig, verdict, cverdict, expV, mnV>>

(* Key.verify, step 1: a curve-specific signature kind must be the kind of the key's curve,
   and the payload must have the scheme's length *)
VerifyPrefix == /\ pc = "presented"
                /\ IF /\ SigKindOf(vsig) \in {"sig", CurveSigKind(CurveOf(vpk))}
                      /\ SigKindLen(SigKindOf(vsig)) = SigLen(CurveOf(vpk))
                   THEN pc' = "crypto" /\ UNCHANGED verdict
                   ELSE pc' = "verified" /\ verdict' = "reject"
                /\ UNCHANGED <<flow, key, form, msgform, sig, tamper, vpk, vsig, vmsg, cverdict, expV, mnV>>

(* step 2: the scheme's verification over the curve's digest of the message *)
VerifyCrypto == /\ pc = "crypto"
                /\ verdict' = IF Valid(vpk, vsig, vmsg) THEN "accept" ELSE "reject"
                /\ pc' = "verified"
                /\ UNCHANGED <<flow, key, form, msgform, sig, tamper, vpk, vsig, vmsg, cverdict, expV, mnV>>

(* the Michelson instruction: key : signature : bytes : S  ->  bool : S *)
CheckSignature == /\ pc = "verified"
                  /\ cverdict' = IF Valid(vpk, vsig, vmsg) THEN "true" ELSE "false"
                  /\ pc' = "done"
                  /\ UNCHANGED <<flow, key, form, msgform, sig, tamper, vpk, vsig, vmsg, verdict, expV, mnV>>

---------------------------------------------------------------------------
(* C08: export / import *)
Secret(k, o) == <<"secret", IF CurveOf(k) = "ed" THEN (IF o[1] = "plain64" THEN "full" ELSE "seed") ELSE "scalar", k>>

Export(o) == /\ pc = "keyed" /\ flow = "export" /\ o \in ExportOpts(CurveOf(key))
             /\ opt' = o
             /\ enc' = <<"enc", SkPrefix(CurveOf(key), o), o[1] = "encrypted",
                         IF o[1] = "encrypted" THEN <<"box", o[2], Secret(key, o)>> ELSE <<"clear", 0, Secret(key, o)>> >>
             /\ pc' = "exported"
             /\ UNCHANGED <<flow, key, signV, ipass, imported, pkh, hkey, mnV>>

(* Key.from_encoded_key: the prefix gives curve and encrypted?; an encrypted body opens only
   with the key derived from the same passphrase (authenticated encryption).  Passphrase 0 = none given. *)
Import(p) == /\ pc = "exported"
             /\ p \in (IF enc[3] THEN PassIds ELSE PassIds \cup {0})
             /\ ipass' = p
             /\ LET body == enc[4] IN
                imported' = IF body[1] = "clear" THEN body[3][3]
                            ELSE IF body[2] = p THEN body[3][3] ELSE <<"fail">>
             /\ pc' = "imported"
             /\ UNCHANGED <<flow, key, signV, opt, enc, pkh, hkey, mnV>>

(* public_key_hash() of the imported key, and HASH_KEY on its public key *)
Address == /\ pc = "imported"
           /\ IF imported = <<"fail">> THEN UNCHANGED <<pkh, hkey>>
              ELSE pkh' = Pkh(Pk(imported)) /\ hkey' = Pkh(Pk(imported))
           /\ pc' = "done"
           /\ UNCHANGED <<flow, key, signV, opt, enc, ipass, imported, mnV>>

---------------------------------------------------------------------------
(* C08: mnemonics.  A word sequence is abstracted to <<"mn", number of words, all words in the
   list?, BIP-39 checksum bits correct?, input form>>; the checksum is uninterpreted (TLC picks it). *)
PickMnemonic(n, w, ck, inf) ==
    /\ pc = "start" /\ flow = "mnemonic"
    /\ mn' = <<"mn", n, w, ck, inf>> /\ pc' = "len"
    /\ UNCHANGED <<flow, key, signV, expV, accepted, dcurve, din, derived>>

Reject == accepted' = "no" /\ pc' = "done"

CheckLen == /\ pc = "len"
            /\ IF mn[2] \in ValidWordCounts THEN pc' = "words" /\ UNCHANGED accepted ELSE Reject
            /\ UNCHANGED <<flow, key, signV, expV, mn, dcurve, din, derived>>
CheckWords == /\ pc = "words"
              /\ IF mn[3] THEN pc' = "cksum" /\ UNCHANGED accepted ELSE Reject
              /\ UNCHANGED <<flow, key, signV, expV, mn, dcurve, din, derived>>
CheckSum == /\ pc = "cksum"
            /\ IF mn[4] THEN accepted' = "yes" /\ pc' = "derive" ELSE Reject
            /\ UNCHANGED <<flow, key, signV, expV, mn, dcurve, din, derived>>

Cat(a, b) == a \o b
Seed(m, e, p) == <<"bip39", m, Cat(e, p)>>
(* two derivations from the same mnemonic *)
Derive(c, e1, p1, e2, p2) ==
    /\ pc = "derive"
    /\ dcurve' = c /\ din' = <<e1, p1, e2, p2>>
    /\ derived' = <<Sk(c, Seed(mn, e1, p1)), Sk(c, Seed(mn, e2, p2))>>
    /\ pc' = "done"
    /\ UNCHANGED <<flow, key, signV, expV, mn, accepted>>

---------------------------------------------------------------------------
Next == \/ \E c \in Curves : Gen(c)
        \/ \E f \in Forms, mf \in MsgForms : Sign(f, mf)
        \/ \E k \in TamperKinds("ed") \cup TamperKinds("bl") \cup TamperKinds("sp") : Tamper(k)
        \/ VerifyPrefix \/ VerifyCrypto \/ CheckSignature
        \/ \E o \in UNION {ExportOpts(c) : c \in Curves} : Export(o)
        \/ \E p \in PassIds \cup {0} : Import(p)
        \/ Address
        \/ \E n \in WordCounts, w \in BOOLEAN, ck \in BOOLEAN, inf \in {"str", "list"} : PickMnemonic(n, w, ck, inf)
        \/ CheckLen \/ CheckWords \/ CheckSum
        \/ \E c \in Curves, e1 \in Emails, p1 \in Phrases, e2 \in Emails, p2 \in Phrases : Derive(c, e1, p1, e2, p2)

Spec == Init /\ [][Next]_vars

---------------------------------------------------------------------------
(* C07 *)
(* signing succeeds in curve-specific and in generic form, for every curve and message form *)
SignEnabled == (pc = "keyed" /\ flow = "sign") => \A f \in Forms, mf \in MsgForms : ENABLED Sign(f, mf)
(* the signature does not depend on how the message was handed over, and is the scheme's signature over the curve's digest *)
SignatureIsSchemeSig == sig # None => /\ Valid(Pk(key), sig, Msg(1))
                                      /\ SigKindLen(SigKindOf(sig)) = SigLen(CurveOf(key))
(* verification accepts exactly the untampered triple *)
VerdictIffUntampered == pc \in {"verified", "done"} /\ flow = "sign" => (verdict = "accept" <=> tamper[1] = "none")
(* CHECK_SIGNATURE is the same function *)
CheckSigSameVerdict == pc = "done" /\ flow = "sign" => (cverdict = "true" <=> verdict = "accept")

(* C08 *)
(* import(export(k, o), same passphrase) = k;  a wrong passphrase fails *)
RoundTrip == pc \in {"imported", "done"} /\ flow = "export" =>
               IF opt[1] = "encrypted" /\ ipass # opt[2] THEN imported = <<"fail">> ELSE imported = key
EncodedForm == enc # None => /\ enc[3] = (opt[1] = "encrypted")
                             /\ enc[2] = SkPrefix(CurveOf(key), opt)
AddressStable == pc = "done" /\ flow = "export" /\ imported # <<"fail">> =>
                   /\ pkh = Pkh(Pk(key)) /\ hkey = pkh /\ pkh[2] = PkhPrefix(CurveOf(key))
(* a mnemonic is accepted exactly when its length is valid, its words are known and its checksum is right *)
AcceptExactly == accepted # "-" => (accepted = "yes" <=> (mn[2] \in ValidWordCounts /\ mn[3] /\ mn[4]))
(* derivation is a function of (mnemonic, email ++ passphrase) *)
Deterministic == derived # None =>
                   (derived[1] = derived[2] <=> Cat(din[1], din[2]) = Cat(din[3], din[4]))

(* Leg B export: every completed scenario is printed once (TLC evaluates an invariant once per distinct state).
   A mnemonic row is printed in the state that follows the acceptance decision. *)
EmitDone ==
  /\ (pc = "done" /\ flow = "sign") =>
        PrintT(<<"OUT", "sign", CurveOf(key), form, msgform, tamper, SigKindOf(sig), verdict, cverdict>>)
  /\ (pc = "done" /\ flow = "export") =>
        PrintT(<<"OUT", "export", CurveOf(key), opt, ipass, enc[2], IF imported = key THEN "same" ELSE "fail", IF pkh = None THEN "-" ELSE pkh[2]>>)
  /\ (flow = "mnemonic" /\ accepted # "-" /\ derived = None) =>
        PrintT(<<"OUT", "mnemonic", mn[2], mn[3], mn[4], mn[5], accepted>>)
  /\ (pc = "done" /\ derived # None) =>
        PrintT(<<"OUT", "derive", mn[2], mn[5], dcurve, din, derived[1] = derived[2]>>)
=============================================================================
