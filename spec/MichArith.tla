----------------------------- MODULE MichArith -----------------------------
(* Exact arithmetic and numeric conversions of Michelson (C16) over arbitrary-precision
   integers (BigInt.tla: <<neg, little-endian base-256 magnitude>>).  A behaviour is one
   instruction applied to one operand tuple: Init picks the case from the bounded universe
   and computes the reference result; the invariants are the mathematical laws the result
   must satisfy (independent re-statement of each operation), and every case is exported for
   the conformance leg.

   numbers   <<neg, mag>>         bytes  <<"b", seq>>
   results   <<"ok", type, value>>  |  <<"err", kind>>      option: <<"none">> | <<"some", v>>   pair: <<"p", x, y>> *)
EXTENDS BigInt, TLC
CONSTANTS Cases,          \* set of <<op, ta, tb>>  (tb = "-" for unary instructions)
          ValsOf(_)       \* type name -> set of values

MutezMax == <<FALSE, [k \in 1..8 |-> IF k = 8 THEN 127 ELSE 255]>>      \* 2^63 - 1
N(k) == FromInt(k)
IsZero(x) == x[2] = <<>>
Le(x, y) == Cmp(x, y) <= 0
Lt(x, y) == Cmp(x, y) < 0
Ok(t, v) == <<"ok", t, v>>
Err(k) == <<"err", k>>
MutezOk(v) == IF Le(v, MutezMax) THEN Ok("mutez", v) ELSE Err("overflow")
NumT(ta, tb) == IF ta = "nat" /\ tb = "nat" THEN "nat" ELSE "int"

\* ----- bytes as big-endian bit strings (Mumbai bitwise instructions on bytes) -----
Bytes(v) == v[2]
B(s) == <<"b", s>>
PadLeft(s, n) == [k \in 1..(n - Len(s)) |-> 0] \o s
KeepRight(s, n) == SubSeq(s, Len(s) - n + 1, Len(s))
Max2(x, y) == IF x > y THEN x ELSE y
Min2(x, y) == IF x < y THEN x ELSE y
RECURSIVE ByteOp(_, _, _, _)
ByteOp(op, x, y, k) == IF k = 0 THEN 0
  ELSE LET p == x % 2  q == y % 2
           z == CASE op = "AND" -> IF p = 1 /\ q = 1 THEN 1 ELSE 0
                  [] op = "OR" -> IF p = 1 \/ q = 1 THEN 1 ELSE 0
                  [] op = "XOR" -> IF p # q THEN 1 ELSE 0
           r == ByteOp(op, x \div 2, y \div 2, k - 1)
       IN z + 2 * r
BytesBitwise(op, s, u) ==
  LET n == IF op = "AND" THEN Min2(Len(s), Len(u)) ELSE Max2(Len(s), Len(u))     \* AND: length of the shorter (left bytes dropped); OR/XOR: of the longer (zero padded on the left)
      x == IF op = "AND" THEN KeepRight(s, n) ELSE PadLeft(s, n)
      y == IF op = "AND" THEN KeepRight(u, n) ELSE PadLeft(u, n)
  IN [k \in 1..n |-> ByteOp(op, x[k], y[k], 8)]
\* shifts of byte strings through the unsigned big-endian number with a fixed output width
Rev(s) == [k \in 1..Len(s) |-> s[Len(s) - k + 1]]
BytesShl(s, n) == LET w == Len(s) + ((n + 7) \div 8)
                      v == MShl(MTrim(Rev(s)), n)
                  IN Rev(v \o [k \in 1..(w - Len(v)) |-> 0])
BytesShr(s, n) == LET w == IF n \div 8 >= Len(s) THEN 0 ELSE Len(s) - (n \div 8)
                      v == MShr(MTrim(Rev(s)), n)
                  IN Rev(v \o [k \in 1..(w - Len(v)) |-> 0])

ToSmall(x) == ToInt(x)       \* shift amounts are small by construction

Compute(op, ta, a, tb, b) ==
  CASE op = "ADD" -> IF ta = "mutez" THEN MutezOk(Add(a, b))
                     ELSE IF ta = "timestamp" \/ tb = "timestamp" THEN Ok("timestamp", Add(a, b))
                     ELSE Ok(NumT(ta, tb), Add(a, b))
    [] op = "SUB" -> IF ta = "timestamp" /\ tb = "int" THEN Ok("timestamp", Sub(a, b)) ELSE Ok("int", Sub(a, b))
    [] op = "SUB_MUTEZ" -> Ok("option mutez", IF Le(b, a) THEN <<"some", Sub(a, b)>> ELSE <<"none">>)
    [] op = "MUL" -> IF ta = "mutez" \/ tb = "mutez" THEN MutezOk(Mul(a, b)) ELSE Ok(NumT(ta, tb), Mul(a, b))
    [] op = "EDIV" ->
         LET qt == CASE ta = "nat" /\ tb = "nat" -> "nat" [] ta = "mutez" /\ tb = "nat" -> "mutez" [] ta = "mutez" /\ tb = "mutez" -> "nat" [] OTHER -> "int"
             rt == IF ta = "mutez" THEN "mutez" ELSE "nat"
             ty == "option (pair " \o qt \o " " \o rt \o ")" IN
         IF IsZero(b) THEN Ok(ty, <<"none">>)
         ELSE LET d == EDiv(a, b) IN Ok(ty, <<"some", <<"p", d[1], d[2]>>>>)
    [] op = "ABS" -> Ok("nat", Abs(a))
    [] op = "NEG" -> Ok("int", Neg(a))
    [] op = "ISNAT" -> Ok("option nat", IF IsNeg(a) THEN <<"none">> ELSE <<"some", a>>)
    [] op = "INT" -> IF ta = "bytes" THEN Ok("int", BytesToInt(Bytes(a))) ELSE Ok("int", a)
    [] op = "NAT" -> Ok("nat", BytesToNat(Bytes(a)))
    [] op = "BYTES" -> Ok("bytes", B(IF ta = "nat" THEN NatToBytes(a) ELSE IntToBytes(a)))
    [] op = "LSL" -> IF ToSmall(b) > 256 /\ ta = "nat" THEN Err("shift")
                     ELSE IF ta = "nat" THEN Ok("nat", Shl(a, ToSmall(b))) ELSE Ok("bytes", B(BytesShl(Bytes(a), ToSmall(b))))
    [] op = "LSR" -> IF ToSmall(b) > 256 /\ ta = "nat" THEN Err("shift")
                     ELSE IF ta = "nat" THEN Ok("nat", Shr(a, ToSmall(b))) ELSE Ok("bytes", B(BytesShr(Bytes(a), ToSmall(b))))
    [] op \in {"AND", "OR", "XOR"} ->
         IF ta = "bytes" THEN Ok("bytes", B(BytesBitwise(op, Bytes(a), Bytes(b))))
         ELSE Ok("nat", BitOp(CASE op = "AND" -> "and" [] op = "OR" -> "or" [] op = "XOR" -> "xor", a, b))
    [] op = "NOT" -> IF ta = "bytes" THEN Ok("bytes", B([k \in DOMAIN Bytes(a) |-> 255 - Bytes(a)[k]])) ELSE Ok("int", Not(a))

VARIABLES case, a, b, res
vars == <<case, a, b, res>>
Init == /\ case \in Cases
        /\ a \in ValsOf(case[2])
        /\ b \in (IF case[3] = "-" THEN {<<FALSE, <<>>>>} ELSE ValsOf(case[3]))
        /\ res = Compute(case[1], case[2], a, case[3], b)
Next == UNCHANGED vars
Spec == Init /\ [][Next]_vars

\* ----- laws: an independent statement of what each result must satisfy -----
op == case[1]
IsOk == res[1] = "ok"
Val == res[3]
Normal(x) == (x[2] = <<>> => ~x[1]) /\ (x[2] # <<>> => x[2][Len(x[2])] # 0)     \* canonical limb form
LawAddSub == op \in {"ADD", "SUB"} /\ IsOk => (IF op = "ADD" THEN Sub(Val, b) = a ELSE Add(Val, b) = a) /\ Normal(Val)
LawMul == op = "MUL" /\ IsOk /\ ~IsZero(b) => EDiv(Val, b) = <<a, Zero>>
LawEDiv == op = "EDIV" /\ IsOk /\ Val # <<"none">> =>
             LET q == Val[2][2]  r == Val[2][3] IN Add(Mul(q, b), r) = a /\ ~IsNeg(r) /\ Lt(r, Abs(b))
LawEDivZero == op = "EDIV" => (Val = <<"none">> <=> IsZero(b))
LawMutez == res = Err("overflow") <=> (op \in {"ADD", "MUL"} /\ (case[2] = "mutez" \/ case[3] = "mutez") /\ Lt(MutezMax, IF op = "ADD" THEN Add(a, b) ELSE Mul(a, b)))
LawSubMutez == op = "SUB_MUTEZ" => (Val = <<"none">> <=> Lt(a, b)) /\ (Val # <<"none">> => Add(Val[2], b) = a)
LawShift == res = Err("shift") <=> (op \in {"LSL", "LSR"} /\ case[2] = "nat" /\ ToSmall(b) > 256)
LawBytesRoundTrip == op = "BYTES" /\ IsOk => (IF case[2] = "nat" THEN BytesToNat(Bytes(Val)) ELSE BytesToInt(Bytes(Val))) = a
LawBytesMinimal == op = "BYTES" /\ IsOk /\ Len(Bytes(Val)) >= 2 =>
                     LET s == Bytes(Val) IN ~(s[1] = 0 /\ s[2] < 128 /\ case[2] = "int") /\ ~(s[1] = 255 /\ s[2] >= 128 /\ case[2] = "int") /\ ~(s[1] = 0 /\ case[2] = "nat")
LawNot == op = "NOT" /\ IsOk /\ case[2] # "bytes" => Add(Add(Val, a), N(1)) = Zero
LawAbsNeg == (op = "ABS" => ~IsNeg(Val) /\ Val[2] = a[2]) /\ (op = "NEG" => Add(Val, a) = Zero)
LawBitwiseNat == op \in {"AND", "OR", "XOR"} /\ case[2] = "nat" /\ case[3] = "nat" =>
                   \* a + b = (a OR b) + (a AND b),  a XOR b = (a OR b) - (a AND b)
                   LET an == BitOp("and", a, b)  orr == BitOp("or", a, b)  x == BitOp("xor", a, b) IN
                   Add(a, b) = Add(orr, an) /\ x = Sub(orr, an)
LawShiftNat == op \in {"LSL", "LSR"} /\ IsOk /\ case[2] = "nat" =>
                 LET p == Shl(N(1), ToSmall(b)) IN IF op = "LSL" THEN Val = Mul(a, p) ELSE Val = EDiv(a, p)[1]
Emit == PrintT(<<"OUT", case, a, b, res>>)
=============================================================================
