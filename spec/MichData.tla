------------------------------ MODULE MichData ------------------------------
(* C11 / C04 - typed Michelson values <-> Micheline in the three unparsing modes of the Tezos
   protocol (readable, optimized, legacy_optimized), and PACK / UNPACK on top of the binary
   Micheline codec (MichelineCodec.tla).  Written from the Tezos reference (script_ir_unparser
   `unparse_data` / `unparse_pair`, script_ir_translator `parse_data` / `parse_pair`, I_PACK,
   I_UNPACK), not from pytezos.

   Types and values use the encoding of MichSem.tla (tag-first tuples: <<"pair",a,b>>, <<"p",x,y>>,
   <<"some",x>>, <<"l",x>>, <<"list",seq>>, <<"set",sorted seq>>, <<"map",sorted seq of <<k,v>>>>,
   <<"a",bytes22,entrypoint>>, <<"o",bytes>>, <<"lam",code>> ...) with ONE difference: numbers are
   <<"i", <<neg, mag>>>> where <<neg, mag>> is a limb integer of BigInt.tla (little-endian base 256),
   because timestamps and ints range over the whole of Z.  VCmp is MichSem's Cmp over such numbers;
   CmpAgrees checks that the two coincide on every value whose numbers fit a native integer.

   Micheline nodes are those of MichelineCodec (<<"int",neg,mag>>, <<"string",b>>, <<"bytes",b>>,
   <<"seq",ns>>, <<"prim",tag,args,annots>>) plus one symbolic leaf for the notations this module does
   not spell out character by character:
       <<"text", kind, payload>>      a Micheline *string* node holding
          kind = "rfc3339"            the RFC 3339 notation YYYY-MM-DDThh:mm:ssZ of the instant `payload` (limb integer)
          kind = "address" | "key_hash" | "key" | "signature" | "chain_id"
                                      the Base58Check notation of the value `payload` (<<"a",..>> / <<"o",..>>)
   The harness interprets them with routines that are independent of pytezos.  Text nodes only occur
   in readable mode and are never forged.

   Render(style, mode, t, v) is written twice for pairs:
     style "steps" follows the reference code: one binary pair at a time, looking at the Micheline
                   already produced for the right component (unparse_pair);
     style "decl"  states the rule: unfold the right spine of the *type* completely into n >= 2
                   components; readable: Pair a1 .. an; legacy_optimized: nested binary pairs;
                   optimized: n = 2 Pair a b, n = 3 Pair a (Pair b c), n >= 4 the sequence {a1; ..; an}.
   CombRule (Leg A) says they agree.  FromM accepts, for every type, every notation the reference
   parser accepts (readable and optimized leaves; Pair with n >= 2 arguments, nested pairs and
   sequences for pairs).

   Timestamps (C11): optimized / legacy = int node.  Readable = RFC 3339 text for instants inside the
   years 1000..9999, int node for every instant outside (property statement).  The reference prints
   text wherever Ptime can (years 0000..9999); for the years 0000..0999 TsZone says "either" and the
   harness accepts the int node as well as the zero-padded four-digit-year text there.

   Two state machines over one universe of <<type, value>>:
     SpecC11:  Init -> Render (the nodes of the three modes, plus readable as Ptime prints it) -> Parse (FromM of each)
     SpecC04:  Init -> Render -> PackStep -> UnpackStep -> Mutate (malformed variants of the packed
               bytes, classes of MichelineCodec!Mutants plus the 0x05 prefix, each with the verdict
               of Unpack and the stage that rejected it: "prefix", "decode" (not binary Micheline)
               or "type" (binary Micheline that is not a value of the type)). *)
EXTENDS Integers, Sequences, FiniteSets, TLC

CONSTANTS Depth,      \* 2: leaf types and one constructor over leaves (+ a few two-level types); 3: two constructors
          Wide,       \* TRUE: the larger leaf pools inside compound values
          MutSpan     \* single-byte replacements are tried on the first MutSpan bytes of the forged node

BI  == INSTANCE BigInt
Sem == INSTANCE MichSem
MC  == INSTANCE MichelineCodec WITH Mags <- {}, TagsA <- {}, TagsB <- {}, Depth <- 2, TopTags <- {11, 255},
                                    BadPrimTags <- {176, 255}, ByteSpan <- MutSpan,
                                    node <- 0, bytes <- 0, dec <- 0, muts <- 0, pc <- 0

Modes == <<"readable", "optimized", "legacy_optimized">>
\* a fourth rendering, exported only: readable as the reference prints it, i.e. RFC 3339 text also for the years 0000..0999
AllModes == Modes \o <<"readable_ptime">>
Readable(m) == m \in {"readable", "readable_ptime"}

\* ---------- primitive tags used for data (checked against the protocol table of MichelineCodec) ----------
PFalse == 3  PElt == 4  PLeft == 5  PNone == 6  PPair == 7  PRight == 8  PSome == 9  PTrue == 10  PUnit == 11
PDROP == 32  PUNIT == 79
ASSUME /\ MC!PrimName[PFalse + 1] = "False" /\ MC!PrimName[PElt + 1] = "Elt" /\ MC!PrimName[PLeft + 1] = "Left"
       /\ MC!PrimName[PNone + 1] = "None" /\ MC!PrimName[PPair + 1] = "Pair" /\ MC!PrimName[PRight + 1] = "Right"
       /\ MC!PrimName[PSome + 1] = "Some" /\ MC!PrimName[PTrue + 1] = "True" /\ MC!PrimName[PUnit + 1] = "Unit"
       /\ MC!PrimName[PDROP + 1] = "DROP" /\ MC!PrimName[PUNIT + 1] = "UNIT"

Prim(tag, args) == <<"prim", tag, args, <<>>>>
IntNode(x) == <<"int", x[1], x[2]>>
Text(kind, payload) == <<"text", kind, payload>>
Range(s) == {s[k] : k \in DOMAIN s}

\* ---------- types ----------
TI == <<"int">>  TN == <<"nat">>  TStr == <<"string">>  TB == <<"bytes">>  TBool == <<"bool">>  TUnit == <<"unit">>
TMutez == <<"mutez">>  TTs == <<"timestamp">>  TAddr == <<"address">>  TKh == <<"key_hash">>  TKey == <<"key">>
TSig == <<"signature">>  TChain == <<"chain_id">>  TLam == <<"lambda", TUnit, TUnit>>
\* a lambda is packable whatever its parameter / return types mention (here: operation, which is itself not packable)
TLamOp == <<"lambda", <<"operation">>, <<"operation">>>>
NumTypes == {"int", "nat", "mutez", "timestamp"}
B58Types == {"address", "key_hash", "key", "signature", "chain_id"}
IsLeaf(t) == t[1] \notin {"pair", "option", "or", "list", "set", "map"}

\* ---------- numbers ----------
N(k) == <<"i", BI!FromInt(k)>>
Lm(neg, m) == <<"i", <<neg, m>>>>
Fill(n, b) == [i \in 1..n |-> b]
Pow2(k) == Fill(k \div 8, 0) \o << CASE k % 8 = 0 -> 1 [] k % 8 = 4 -> 16 [] k % 8 = 7 -> 128 >>   \* magnitude of 2^k, k mod 8 in {0,4,7}
MutezMax == <<FALSE, Fill(7, 255) \o <<127>>>>                          \* 2^63 - 1
One == BI!FromInt(1)
Secs(days, s) == BI!Add(BI!Mul(BI!FromInt(days), BI!FromInt(86400)), BI!FromInt(s))
Y0 == Secs(-719528, 0)           \* 0000-01-01T00:00:00Z   (first instant Ptime can print)
Y1 == Secs(-719162, 0)           \* 0001-01-01T00:00:00Z
Y1000 == Secs(-354285, 0)        \* 1000-01-01T00:00:00Z
Y10000 == Secs(2932897, 0)       \* 10000-01-01T00:00:00Z
Le(x, y) == BI!Cmp(x, y) <= 0
Lt(x, y) == BI!Cmp(x, y) < 0
\* "text": RFC 3339 notation demanded; "int": integer demanded; "either": years 0000..0999 (see header)
TsZone(x) == IF Le(Y1000, x) /\ Lt(x, Y10000) THEN "text" ELSE IF Le(Y0, x) /\ Lt(x, Y1000) THEN "either" ELSE "int"

\* ---------- comparison: MichSem!Cmp with limb numbers ----------
RECURSIVE VCmp(_, _, _)
VCmp(t, a, b) ==
  CASE t[1] \in NumTypes -> BI!Cmp(a[2], b[2])
    [] t[1] \in {"string", "bytes", "key_hash", "key", "signature", "chain_id"} -> Sem!CmpBytes(a[2], b[2])
    [] t[1] = "address" -> LET c == Sem!CmpBytes(a[2], b[2]) IN IF c # 0 THEN c ELSE Sem!CmpBytes(a[3], b[3])
    [] t[1] = "bool" -> IF a[2] = b[2] THEN 0 ELSE IF b[2] THEN -1 ELSE 1
    [] t[1] = "unit" -> 0
    [] t[1] = "pair" -> LET c == VCmp(t[2], a[2], b[2]) IN IF c # 0 THEN c ELSE VCmp(t[3], a[3], b[3])
    [] t[1] = "option" -> IF a[1] = "none" THEN (IF b[1] = "none" THEN 0 ELSE -1)
                          ELSE IF b[1] = "none" THEN 1 ELSE VCmp(t[2], a[2], b[2])
    [] t[1] = "or" -> IF a[1] = "l" THEN (IF b[1] = "l" THEN VCmp(t[2], a[2], b[2]) ELSE -1)
                      ELSE IF b[1] = "l" THEN 1 ELSE VCmp(t[3], a[2], b[2])
Sorted(t, keys) == \A k \in 1..Len(keys) - 1 : VCmp(t, keys[k], keys[k + 1]) = -1

\* well-formed values (MichSem!HasType over limb numbers; lambdas: the two bodies of the pool)
LamBodies == { <<>>, << <<"DROP", 1>>, <<"UNIT">> >> }
RECURSIVE WellTyped(_, _)
WellTyped(v, t) ==
  CASE t[1] \in {"int", "timestamp"} -> v[1] = "i"
    [] t[1] = "nat" -> v[1] = "i" /\ ~v[2][1]
    [] t[1] = "mutez" -> v[1] = "i" /\ ~v[2][1] /\ Le(v[2], MutezMax)
    [] t[1] = "string" -> v[1] = "s"
    [] t[1] = "bytes" -> v[1] = "b"
    [] t[1] = "bool" -> v[1] = "bool"
    [] t[1] = "unit" -> v = <<"unit">>
    [] t[1] = "address" -> v[1] = "a" /\ Len(v[2]) = 22
    [] t[1] \in {"key_hash", "key", "signature", "chain_id"} -> v[1] = "o"
    [] t[1] = "lambda" -> v[1] = "lam" /\ v[2] \in LamBodies
    [] t[1] = "pair" -> v[1] = "p" /\ WellTyped(v[2], t[2]) /\ WellTyped(v[3], t[3])
    [] t[1] = "option" -> v = <<"none">> \/ (v[1] = "some" /\ WellTyped(v[2], t[2]))
    [] t[1] = "or" -> (v[1] = "l" /\ WellTyped(v[2], t[2])) \/ (v[1] = "r" /\ WellTyped(v[2], t[3]))
    [] t[1] = "list" -> v[1] = "list" /\ \A k \in DOMAIN v[2] : WellTyped(v[2][k], t[2])
    [] t[1] = "set" -> v[1] = "set" /\ (\A k \in DOMAIN v[2] : WellTyped(v[2][k], t[2])) /\ Sorted(t[2], v[2])
    [] t[1] = "map" -> /\ v[1] = "map"
                       /\ \A k \in DOMAIN v[2] : WellTyped(v[2][k][1], t[2]) /\ WellTyped(v[2][k][2], t[3])
                       /\ Sorted(t[2], [k \in DOMAIN v[2] |-> v[2][k][1]])

\* ======================================================================================
\*  typed value -> Micheline
\* ======================================================================================
InstrNode(i) == CASE i[1] = "DROP" -> Prim(PDROP, <<>>) [] i[1] = "UNIT" -> Prim(PUNIT, <<>>)
IsPair2(n) == n[1] = "prim" /\ n[2] = PPair /\ Len(n[3]) = 2 /\ n[4] = <<>>
RECURSIVE NestPairs(_)
NestPairs(a) == IF Len(a) = 2 THEN Prim(PPair, a) ELSE Prim(PPair, <<a[1], NestPairs(Tail(a))>>)
\* components <<type, value>> of the right spine of a pair, unfolded as far as the TYPE is a pair
RECURSIVE Spine(_, _)
Spine(t, v) == IF t[3][1] = "pair" THEN << <<t[2], v[2]>> >> \o Spine(t[3], v[3]) ELSE << <<t[2], v[2]>>, <<t[3], v[3]>> >>

RECURSIVE Render(_, _, _, _)
Render(style, m, t, v) ==
  CASE t[1] \in {"int", "nat", "mutez"} -> IntNode(v[2])
    [] t[1] = "timestamp" -> IF (m = "readable" /\ TsZone(v[2]) = "text") \/ (m = "readable_ptime" /\ TsZone(v[2]) # "int")
                             THEN Text("rfc3339", v[2]) ELSE IntNode(v[2])
    [] t[1] = "string" -> <<"string", v[2]>>
    [] t[1] = "bytes" -> <<"bytes", v[2]>>
    [] t[1] = "bool" -> Prim(IF v[2] THEN PTrue ELSE PFalse, <<>>)
    [] t[1] = "unit" -> Prim(PUnit, <<>>)
    [] t[1] = "address" -> IF Readable(m) THEN Text("address", v) ELSE <<"bytes", v[2] \o v[3]>>
    [] t[1] \in {"key_hash", "key", "signature", "chain_id"} -> IF Readable(m) THEN Text(t[1], v) ELSE <<"bytes", v[2]>>
    [] t[1] = "lambda" -> <<"seq", [k \in DOMAIN v[2] |-> InstrNode(v[2][k])]>>
    [] t[1] = "option" -> IF v = <<"none">> THEN Prim(PNone, <<>>) ELSE Prim(PSome, <<Render(style, m, t[2], v[2])>>)
    [] t[1] = "or" -> IF v[1] = "l" THEN Prim(PLeft, <<Render(style, m, t[2], v[2])>>) ELSE Prim(PRight, <<Render(style, m, t[3], v[2])>>)
    [] t[1] \in {"list", "set"} -> <<"seq", [k \in DOMAIN v[2] |-> Render(style, m, t[2], v[2][k])]>>
    [] t[1] = "map" -> <<"seq", [k \in DOMAIN v[2] |-> Prim(PElt, <<Render(style, m, t[2], v[2][k][1]), Render(style, m, t[3], v[2][k][2])>>)]>>
    [] t[1] = "pair" /\ style = "steps" ->
         \* unparse_pair: the right component has been unparsed already; fold it into the notation of the mode
         LET l == Render(style, m, t[2], v[2])
             r == Render(style, m, t[3], v[3])
             rcomb == t[3][1] = "pair" IN
         CASE m = "optimized" /\ rcomb /\ r[1] = "seq" -> <<"seq", <<l>> \o r[2]>>                      \* n > 4
           [] m = "optimized" /\ rcomb /\ t[3][3][1] = "pair" /\ IsPair2(r) /\ IsPair2(r[3][2]) ->        \* n = 4
                <<"seq", <<l, r[3][1], r[3][2][3][1], r[3][2][3][2]>>>>
           [] Readable(m) /\ rcomb /\ r[1] = "prim" /\ r[2] = PPair -> Prim(PPair, <<l>> \o r[3])     \* n > 2
           [] OTHER -> Prim(PPair, <<l, r>>)
    [] t[1] = "pair" /\ style = "decl" ->
         LET sp == Spine(t, v)
             args == [k \in DOMAIN sp |-> Render(style, m, sp[k][1], sp[k][2])] IN
         CASE Readable(m) -> Prim(PPair, args)
           [] m = "legacy_optimized" -> NestPairs(args)
           [] m = "optimized" -> IF Len(args) >= 4 THEN <<"seq", args>> ELSE NestPairs(args)

ToM(m, t, v) == Render("steps", m, t, v)
DeclToM(m, t, v) == Render("decl", m, t, v)

\* ======================================================================================
\*  Micheline -> typed value (parse_data): <<TRUE, v>> | <<FALSE, <<"bad", reason>>>>
\* ======================================================================================
Ok(v) == <<TRUE, v>>
Bad(r) == <<FALSE, <<"bad", r>>>>
IsPrim(n, tag, k) == n[1] = "prim" /\ n[2] = tag /\ Len(n[3]) = k /\ n[4] = <<>>
Num(n) == <<"i", IF n[3] = <<>> THEN BI!Zero ELSE <<n[2], n[3]>>>>
AddrOK(b) == (b[1] = 0 /\ b[2] \in 0..3) \/ (b[1] \in {1, 3} /\ b[22] = 0)
OpaqueOK(ty, b) == CASE ty = "key_hash" -> Len(b) = 21 /\ b[1] \in 0..3
                     [] ty = "key" -> Len(b) >= 1 /\ ((b[1] = 0 /\ Len(b) = 33) \/ (b[1] \in {1, 2} /\ Len(b) = 34) \/ (b[1] = 3 /\ Len(b) = 49))
                     [] ty = "signature" -> Len(b) \in {64, 96}
                     [] ty = "chain_id" -> Len(b) = 4
DefaultEp == <<100, 101, 102, 97, 117, 108, 116>>

RECURSIVE FromM(_, _), FromAll(_, _), FromElts(_, _, _)
FromAll(t, ns) ==
  IF ns = <<>> THEN Ok(<<>>)
  ELSE LET h == FromM(t, Head(ns)) IN
       IF ~h[1] THEN h
       ELSE LET r == FromAll(t, Tail(ns)) IN IF ~r[1] THEN r ELSE Ok(<<h[2]>> \o r[2])
FromElts(kt, vt, ns) ==
  IF ns = <<>> THEN Ok(<<>>)
  ELSE IF ~IsPrim(Head(ns), PElt, 2) THEN Bad("elt")
  ELSE LET k == FromM(kt, Head(ns)[3][1]) IN
       IF ~k[1] THEN k
       ELSE LET x == FromM(vt, Head(ns)[3][2]) IN
            IF ~x[1] THEN x
            ELSE LET r == FromElts(kt, vt, Tail(ns)) IN IF ~r[1] THEN r ELSE Ok(<< <<k[2], x[2]>> >> \o r[2])
FromM(t, n) ==
  CASE t[1] = "int" -> IF n[1] = "int" THEN Ok(Num(n)) ELSE Bad("kind")
    [] t[1] = "nat" -> IF n[1] = "int" THEN (IF Num(n)[2][1] THEN Bad("negative") ELSE Ok(Num(n))) ELSE Bad("kind")
    [] t[1] = "mutez" -> IF n[1] = "int" THEN (IF Num(n)[2][1] \/ ~Le(Num(n)[2], MutezMax) THEN Bad("mutez-range") ELSE Ok(Num(n))) ELSE Bad("kind")
    [] t[1] = "timestamp" -> IF n[1] = "int" THEN Ok(Num(n))
                             ELSE IF n[1] = "text" /\ n[2] = "rfc3339" THEN Ok(<<"i", n[3]>>) ELSE Bad("kind")
    [] t[1] = "string" -> IF n[1] = "string" THEN Ok(<<"s", n[2]>>) ELSE Bad("kind")
    [] t[1] = "bytes" -> IF n[1] = "bytes" THEN Ok(<<"b", n[2]>>) ELSE Bad("kind")
    [] t[1] = "bool" -> IF IsPrim(n, PTrue, 0) THEN Ok(<<"bool", TRUE>>) ELSE IF IsPrim(n, PFalse, 0) THEN Ok(<<"bool", FALSE>>) ELSE Bad("kind")
    [] t[1] = "unit" -> IF IsPrim(n, PUnit, 0) THEN Ok(<<"unit">>) ELSE Bad("kind")
    [] t[1] = "address" ->
         IF n[1] = "text" /\ n[2] = "address" THEN Ok(n[3])
         ELSE IF n[1] # "bytes" THEN Bad("kind")
         ELSE IF Len(n[2]) < 22 THEN Bad("address-length")
         ELSE IF ~AddrOK(n[2]) THEN Bad("address-tag")
         ELSE IF SubSeq(n[2], 23, Len(n[2])) = DefaultEp THEN Bad("explicit-default-entrypoint-not-modelled")
         ELSE Ok(<<"a", SubSeq(n[2], 1, 22), SubSeq(n[2], 23, Len(n[2]))>>)
    [] t[1] \in {"key_hash", "key", "signature", "chain_id"} ->
         IF n[1] = "text" /\ n[2] = t[1] THEN Ok(n[3])
         ELSE IF n[1] # "bytes" THEN Bad("kind")
         ELSE IF ~OpaqueOK(t[1], n[2]) THEN Bad("opaque-form") ELSE Ok(<<"o", n[2]>>)
    [] t[1] = "lambda" ->
         IF n[1] # "seq" THEN Bad("kind")
         ELSE IF n[2] = <<>> THEN Ok(<<"lam", <<>>>>)
         ELSE IF Len(n[2]) = 2 /\ IsPrim(n[2][1], PDROP, 0) /\ IsPrim(n[2][2], PUNIT, 0) THEN Ok(<<"lam", << <<"DROP", 1>>, <<"UNIT">> >>>>)
         ELSE Bad("lambda-body-not-modelled")
    [] t[1] = "option" -> IF IsPrim(n, PNone, 0) THEN Ok(<<"none">>)
                          ELSE IF IsPrim(n, PSome, 1) THEN (LET x == FromM(t[2], n[3][1]) IN IF ~x[1] THEN x ELSE Ok(<<"some", x[2]>>))
                          ELSE Bad("kind")
    [] t[1] = "or" -> IF IsPrim(n, PLeft, 1) THEN (LET x == FromM(t[2], n[3][1]) IN IF ~x[1] THEN x ELSE Ok(<<"l", x[2]>>))
                      ELSE IF IsPrim(n, PRight, 1) THEN (LET x == FromM(t[3], n[3][1]) IN IF ~x[1] THEN x ELSE Ok(<<"r", x[2]>>))
                      ELSE Bad("kind")
    [] t[1] = "list" -> IF n[1] # "seq" THEN Bad("kind") ELSE LET r == FromAll(t[2], n[2]) IN IF ~r[1] THEN r ELSE Ok(<<"list", r[2]>>)
    [] t[1] = "set" -> IF n[1] # "seq" THEN Bad("kind")
                       ELSE LET r == FromAll(t[2], n[2]) IN
                            IF ~r[1] THEN r ELSE IF ~Sorted(t[2], r[2]) THEN Bad("unsorted") ELSE Ok(<<"set", r[2]>>)
    [] t[1] = "map" -> IF n[1] # "seq" THEN Bad("kind")
                       ELSE LET r == FromElts(t[2], t[3], n[2]) IN
                            IF ~r[1] THEN r
                            ELSE IF ~Sorted(t[2], [k \in DOMAIN r[2] |-> r[2][k][1]]) THEN Bad("unsorted") ELSE Ok(<<"map", r[2]>>)
    [] t[1] = "pair" ->
         \* parse_pair: Pair l r | Pair l r1 .. rk (k >= 2, only if the right type is a pair) | {l; r1; ..; rk} (k >= 1)
         LET args == IF n[1] = "prim" THEN (IF n[2] = PPair /\ n[4] = <<>> THEN n[3] ELSE <<>>)
                     ELSE IF n[1] = "seq" THEN n[2] ELSE <<>> IN
         IF Len(args) < 2 THEN Bad("pair-arity")
         ELSE IF Len(args) > 2 /\ t[3][1] # "pair" THEN Bad("pair-arity")
         ELSE LET l == FromM(t[2], args[1]) IN
              IF ~l[1] THEN l
              ELSE LET r == FromM(t[3], IF Len(args) = 2 THEN args[2] ELSE Prim(PPair, Tail(args))) IN
                   IF ~r[1] THEN r ELSE Ok(<<"p", l[2], r[2]>>)

\* ======================================================================================
\*  PACK / UNPACK
\* ======================================================================================
Pack(t, v) == <<5>> \o MC!Forge(ToM("optimized", t, v))
\* <<TRUE, v, relaxed>> | <<FALSE, <<"bad", stage, reason, info>>, relaxed>>;  None of the instruction = not TRUE
Unpack(t, b) ==
  IF b = <<>> \/ b[1] # 5 THEN <<FALSE, <<"bad", "prefix", "prefix", 0>>, FALSE>>
  ELSE LET u == MC!Unforge(Tail(b)) IN
       IF ~u[1] THEN <<FALSE, <<"bad", "decode", u[2][2], u[2][3]>>, FALSE>>
       ELSE LET f == FromM(t, u[2]) IN
            IF ~f[1] THEN <<FALSE, <<"bad", "type", f[2][2], 0>>, u[3]>> ELSE <<TRUE, f[2], u[3]>>
\* malformed / perturbed variants of the packed bytes: <<class, detail, bytes>>
PMutants(n, b) ==
  {<<m[1], m[2], <<5>> \o m[3]>> : m \in MC!Mutants(n, b)}
  \cup {<<"prefix", x, <<x>> \o b>> : x \in {0, 4, 6, 255}}
  \cup {<<"noprefix", 0, b>>, <<"trunc", -1, <<>>>>}
StrictClasses == MC!StrictClasses \cup {"prefix"}

\* ======================================================================================
\*  bounded universe (generated, never SUBSET)
\* ======================================================================================
Pay(n, f, m, l) == <<f>> \o Fill(n - 2, m) \o <<l>>
S(b) == <<"s", b>>
Bv(b) == <<"b", b>>
IntPool == << N(0), N(-1), N(64), Lm(FALSE, Pow2(63)), Lm(TRUE, Pow2(100)), N(1), N(-64), N(-65), N(8192), Lm(FALSE, Pow2(64)),
             Lm(FALSE, Pow2(4096)), Lm(TRUE, Pow2(2047)) >>                                  \* thousands of bits
NatPool == << N(0), N(1), Lm(FALSE, Pow2(64)), N(127), N(128), Lm(FALSE, Pow2(100)), Lm(FALSE, Pow2(4096)) >>
MutezPool == << N(0), N(1), <<"i", MutezMax>>, N(1000000) >>
TsPool == << N(0), N(1600000000), <<"i", BI!Sub(Y1000, One)>>, <<"i", Y10000>>,       \* 1970, 2020, 0999-12-31T23:59:59Z, 10000-01-01T00:00:00Z
             N(-1), N(1), <<"i", Y1000>>, <<"i", BI!Sub(Y10000, One)>>,               \* 1000-01-01T00:00:00Z, 9999-12-31T23:59:59Z
             <<"i", Y1>>, <<"i", BI!Sub(Y1, One)>>, <<"i", Y0>>, <<"i", BI!Sub(Y0, One)>>,    \* year 1, year 0 (last and first second), year -1
             Lm(FALSE, Pow2(63)), Lm(TRUE, Pow2(63)), Lm(FALSE, Pow2(100)), Lm(TRUE, Pow2(100)),
             N(951827696), <<"i", Secs(-536662, 45296)>>, <<"i", Secs(-719162 + 58, 86399)>> >>  \* 2000-02-29T12:34:56Z, year 500, 0001-02-28T23:59:59Z
StrPool == << S(<<>>), S(<<97>>), S(<<72, 105, 32, 33>>), S(<<34, 92, 10, 126>>) >>          \* "", "a", "Hi !", quote backslash newline tilde
BytesPool == << Bv(<<>>), Bv(<<0, 255>>), Bv(<<5, 1, 2>>) >>
BoolPool == << <<"bool", TRUE>>, <<"bool", FALSE>> >>
AddrPool == << <<"a", <<0, 0>> \o Pay(20, 1, 7, 9), <<>>>>,                           \* tz1
               <<"a", <<1>> \o Pay(20, 200, 3, 77) \o <<0>>, <<120, 121, 122>>>>,    \* KT1 .. %xyz
               <<"a", <<1>> \o Pay(20, 200, 3, 77) \o <<0>>, <<>>>>,                 \* the same KT1, no entrypoint: sorts before %xyz both by binary form and by name
                                                                                     \* (names below "default" are avoided: the protocol compares names, the binary form omits "default")
               <<"a", <<3>> \o Pay(20, 0, 0, 0) \o <<0>>, <<>>>>,                      \* sr1
               <<"a", <<0, 2>> \o Pay(20, 0, 255, 0), <<120>>>>,                      \* tz3 .. %x
               <<"a", <<0, 3>> \o Pay(20, 255, 1, 255), <<>>>>,                       \* tz4
               <<"a", <<0, 1>> \o Pay(20, 4, 4, 4), <<>>>>,                          \* tz2
               <<"a", <<1>> \o Pay(20, 200, 3, 77) \o <<0>>, [j \in 1..31 |-> 97 + (j % 26)]>>,     \* KT1 with an entrypoint name of the maximal length (31)
               <<"a", <<0, 0>> \o Pay(20, 1, 7, 9), <<100, 101, 102, 97, 117, 108, 116, 95, 97, 100, 109, 105, 110>>>>,     \* tz1 .. %default_admin: begins with, but is not, the default name
               <<"a", <<1>> \o Pay(20, 9, 9, 9) \o <<0>>, <<115, 101, 116, 95, 100, 101, 102, 97, 117, 108, 116>>>> >>      \* KT1 .. %set_default: ends in, but is not, the default name
KhPool == << <<"o", <<0>> \o Pay(20, 0, 5, 6)>>,         \* tz1, digest starting 00
             <<"o", <<1>> \o Pay(20, 9, 9, 0)>>,         \* tz2, digest ending 00
             <<"o", <<3>> \o Pay(20, 255, 255, 255)>>,   \* tz4
             <<"o", <<2>> \o Pay(20, 3, 1, 0)>>,        \* tz3
             <<"o", <<0, 6, 161, 159, 6, 161>> \o Pay(15, 159, 6, 161)>> >>     \* tz1 whose hash begins with (and contains again) the bytes of the tz1 base58 prefix
\* two keys of one curve (ordered by their bytes) come first
KeyPool == << <<"o", <<0>> \o Pay(32, 1, 2, 3)>>, <<"o", <<0>> \o Pay(32, 1, 2, 4)>>, <<"o", <<1>> \o Pay(33, 2, 0, 0)>>, <<"o", <<3>> \o Pay(48, 23, 1, 200)>>, <<"o", <<2>> \o Pay(33, 3, 200, 1)>> >>
SigPool == << <<"o", Pay(64, 1, 2, 3)>>, <<"o", Pay(96, 0, 255, 0)>>,
             <<"o", <<4, 130, 43, 43, 4>> \o Pay(59, 130, 4, 43)>> >>      \* 64 bytes beginning with (and ending in) the bytes of the generic signature prefix 04 82 2b
ChainPool == << <<"o", <<122, 6, 167, 112>>>>, <<"o", <<0, 0, 0, 0>>>>, <<"o", <<87, 82, 0, 87>>>> >>     \* the last one: the bytes of the Net prefix 57 52 00
LamPool == << <<"lam", <<>>>>, <<"lam", << <<"DROP", 1>>, <<"UNIT">> >>>> >>
LeafPool(t) == CASE t[1] = "int" -> IntPool [] t[1] = "nat" -> NatPool [] t[1] = "mutez" -> MutezPool [] t[1] = "timestamp" -> TsPool
                 [] t[1] = "string" -> StrPool [] t[1] = "bytes" -> BytesPool [] t[1] = "bool" -> BoolPool [] t[1] = "unit" -> << <<"unit">> >>
                 [] t[1] = "address" -> AddrPool [] t[1] = "key_hash" -> KhPool [] t[1] = "key" -> KeyPool [] t[1] = "signature" -> SigPool
                 [] t[1] = "chain_id" -> ChainPool [] t[1] = "lambda" -> (IF t = TLam THEN LamPool ELSE << <<"lam", <<>>>> >>)
\* pool of a leaf at nesting depth d of the value: everything at the top, a prefix below
Width(t, d) == IF d = 0 THEN 1000 ELSE IF d = 1 THEN (IF t[1] = "timestamp" THEN 4 ELSE IF Wide THEN 4 ELSE 3) ELSE 2
PoolAt(t, d) == LET p == LeafPool(t) IN SubSeq(p, 1, IF Width(t, d) < Len(p) THEN Width(t, d) ELSE Len(p))

RECURSIVE SortSet(_, _)
SortSet(t, Q) == IF Q = {} THEN <<>>
                 ELSE LET mn == CHOOSE x \in Q : \A y \in Q : VCmp(t, x, y) <= 0 IN <<mn>> \o SortSet(t, Q \ {mn})
RECURSIVE SeqOf(_)
SeqOf(Q) == IF Q = {} THEN <<>> ELSE LET x == CHOOSE y \in Q : TRUE IN <<x>> \o SeqOf(Q \ {x})

RECURSIVE Vals(_, _)
Vals(t, d) ==
  CASE IsLeaf(t) -> Range(PoolAt(t, d))
    [] t[1] = "option" -> {<<"none">>} \cup {<<"some", x>> : x \in Vals(t[2], d + 1)}
    [] t[1] = "or" -> {<<"l", x>> : x \in Vals(t[2], d + 1)} \cup {<<"r", y>> : y \in Vals(t[3], d + 1)}
    [] t[1] = "pair" -> {<<"p", x, y>> : x \in Vals(t[2], d + 1), y \in Vals(t[3], d + 1)}
    [] t[1] = "list" -> LET xs == SeqOf(Vals(t[2], d + 1))  n == Len(xs) IN
                        {<<"list", <<>>>>, <<"list", <<xs[1]>>>>, <<"list", <<xs[n], xs[1]>>>>, <<"list", <<xs[1], xs[1]>>>>, <<"list", xs>>}
    [] t[1] = "set" -> LET s == SortSet(t[2], Vals(t[2], d + 1))  n == Len(s) IN
                       {<<"set", <<>>>>, <<"set", <<s[1]>>>>, <<"set", <<s[n]>>>>, <<"set", s>>}
                       \cup (IF n >= 3 THEN {<<"set", <<s[1], s[n]>>>>} ELSE {})
    [] t[1] = "map" -> LET s == SortSet(t[2], Vals(t[2], d + 1))  n == Len(s)
                           xs == SeqOf(Vals(t[3], d + 1))  k == Len(xs) IN
                       {<<"map", <<>>>>, <<"map", << <<s[1], xs[1]>> >>>>, <<"map", << <<s[n], xs[k]>> >>>>,
                        <<"map", [i \in 1..n |-> <<s[i], xs[(i % k) + 1]>>]>>}
                       \cup (IF n >= 3 THEN {<<"map", << <<s[1], xs[k]>>, <<s[n], xs[1]>> >>>>} ELSE {})

\* ----- types -----
RECURSIVE Comb(_)
Comb(ts) == IF Len(ts) = 2 THEN <<"pair", ts[1], ts[2]>> ELSE <<"pair", ts[1], Comb(Tail(ts))>>
Leaves == << TI, TN, TStr, TB, TBool, TUnit, TMutez, TTs, TAddr, TKh, TKey, TSig, TChain, TLam, TLamOp >>
NLeaf == Len(Leaves)
NCmp == NLeaf - 2                                     \* every leaf but the two lambdas is comparable
Nx(i, k) == Leaves[((i + k - 1) % NLeaf) + 1]
D1 == Range(Leaves)
Combs2 == { Comb(<<TI, TStr, TB>>), Comb(<<TN, TBool, TAddr, TUnit>>), Comb(<<TI, TN, TStr, TB, TBool>>),
            Comb(<<TTs, TMutez, TKh, TI, TStr, TN>>), Comb(<<TKey, TSig, TChain, TI>>),
            <<"pair", <<"pair", TI, TN>>, TStr>>,                              \* left-nested
            <<"pair", <<"pair", TI, TN>>, <<"pair", TStr, TB>>>>,              \* comb of 3 whose first component is a pair
            <<"pair", Comb(<<TI, TN, TStr, TB>>), TBool>>,                     \* the left component is a comb of 4
            <<"pair", TI, <<"pair", <<"pair", TN, TStr>>, TB>>>>,              \* comb of 3 whose middle component is a pair
            Comb(<<TI, <<"pair", TN, TStr>>, TB, <<"pair", TBool, TUnit>>, TI>>) }   \* comb of 5 with pair components (the last two fold into the spine)
D2 == {<<"option", a>> : a \in D1} \cup {<<"list", a>> : a \in D1} \cup {<<"set", Leaves[i]>> : i \in 1..NCmp}
      \cup {<<"or", Leaves[i], Nx(i, 3)>> : i \in 1..NLeaf} \cup {<<"pair", Leaves[i], Nx(i, 5)>> : i \in 1..NLeaf}
      \cup {<<"map", Leaves[i], Nx(i, 7)>> : i \in 1..NCmp} \cup Combs2
\* two constructors: a few in the quick tier ...
C4 == Comb(<<TI, TN, TStr, TB>>)
D3q == { <<"option", C4>>, <<"list", C4>>, <<"set", <<"pair", TI, TStr>>>>, <<"map", Comb(<<TN, TStr, TB>>), C4>>,
         <<"or", C4, <<"list", TI>>>>, Comb(<<<<"option", TI>>, <<"list", TN>>, <<"set", TStr>>, <<"map", TI, TB>>>>),
         <<"pair", TI, <<"option", <<"pair", TN, TStr>>>>>>, <<"option", <<"option", TTs>>>>, <<"list", <<"list", TAddr>>>>,
         <<"map", <<"or", TI, TStr>>, <<"option", TKh>>>>, <<"set", <<"option", TTs>>>>, <<"list", <<"or", TKey, TSig>>>>,
         <<"set", <<"or", TN, TN>>>>, <<"map", <<"or", TStr, TStr>>, TI>> }        \* Left v and Right v with the same v are different keys
\* ... and a systematic layer in the thorough tier
Sel2 == { <<"option", TI>>, <<"option", TTs>>, <<"list", TN>>, <<"list", TAddr>>, <<"set", TStr>>, <<"set", TTs>>, <<"or", TI, TStr>>, <<"or", TKh, TB>>,
          <<"pair", TI, TStr>>, <<"pair", TTs, TKey>>, <<"map", TStr, TI>>, <<"map", TAddr, TTs>>, Comb(<<TI, TStr, TB>>), C4,
          Comb(<<TI, TN, TStr, TB, TBool>>), <<"pair", <<"pair", TI, TN>>, TStr>>, <<"pair", C4, TBool>> }
Cmp2 == {t \in Sel2 : Sem!Comparable(t)}
D3 == D3q \cup {<<"option", a>> : a \in Sel2} \cup {<<"list", a>> : a \in Sel2} \cup {<<"set", a>> : a \in Cmp2}
      \cup {<<"or", a, TSig>> : a \in Sel2} \cup {<<"or", TChain, a>> : a \in Sel2}
      \cup {<<"pair", a, TMutez>> : a \in Sel2} \cup {<<"pair", TBool, a>> : a \in Sel2} \cup {Comb(<<TN, a, a>>) : a \in Sel2}
      \cup {<<"map", a, TI>> : a \in Cmp2} \cup {<<"map", TStr, a>> : a \in Sel2}
Types == D1 \cup D2 \cup (IF Depth >= 3 THEN D3 ELSE D3q)
Universe == UNION {{<<t, v>> : v \in Vals(t, 0)} : t \in Types}

\* ======================================================================================
\*  state machines
\* ======================================================================================
VARIABLES ty, val, nodes, backs, packed, legacy, unp, muts, pc
vars == <<ty, val, nodes, backs, packed, legacy, unp, muts, pc>>
Nil == <<FALSE, <<"nil">>, FALSE>>

Init == \E c \in Universe : /\ ty = c[1] /\ val = c[2]
                            /\ nodes = <<>> /\ backs = <<>> /\ packed = <<>> /\ legacy = <<>> /\ unp = Nil /\ muts = {} /\ pc = "render"
\* to_micheline_value in the three modes
RenderStep == /\ pc = "render" /\ nodes' = [k \in 1..4 |-> ToM(AllModes[k], ty, val)] /\ pc' = "rendered"
              /\ UNCHANGED <<ty, val, backs, packed, legacy, unp, muts>>
\* from_micheline_value of each rendering
ParseStep == /\ pc = "rendered" /\ backs' = [k \in 1..4 |-> FromM(ty, nodes[k])] /\ pc' = "done"
             /\ UNCHANGED <<ty, val, nodes, packed, legacy, unp, muts>>
\* `legacy` (exported only): what PACK was before combs were sequences - the binary form of the nested binary pairs
PackStep == /\ pc = "rendered" /\ packed' = <<5>> \o MC!Forge(nodes[2]) /\ legacy' = <<5>> \o MC!Forge(nodes[3]) /\ pc' = "packed"
            /\ UNCHANGED <<ty, val, nodes, backs, unp, muts>>
UnpackStep == /\ pc = "packed" /\ unp' = Unpack(ty, packed) /\ pc' = "unpacked"
              /\ UNCHANGED <<ty, val, nodes, backs, packed, legacy, muts>>
\* exported as <<class, detail, patch relative to packed, verdict>>
MutateStep == /\ pc = "unpacked"
              /\ muts' = {<<m[1], m[2], MC!Patch(packed, m[3]), Unpack(ty, m[3])>> : m \in PMutants(nodes[2], Tail(packed))}
              /\ pc' = "done"
              /\ UNCHANGED <<ty, val, nodes, backs, packed, legacy, unp>>
SpecC11 == Init /\ [][RenderStep \/ ParseStep]_vars
SpecC04 == Init /\ [][RenderStep \/ PackStep \/ UnpackStep \/ MutateStep]_vars

\* ---------- C11 ----------
Generated == WellTyped(val, ty)                                        \* the universe holds well-formed values only (sorted sets / maps)
RoundTrip == pc = "done" /\ backs # <<>> => \A k \in 1..4 : backs[k] = Ok(val)
CombRule == pc # "render" => \A k \in 1..4 : nodes[k] = DeclToM(AllModes[k], ty, val)
\* the parser does not depend on the mode: every comb notation of the optimized leaves is accepted
AltForms == pc = "rendered" /\ ty[1] = "pair" =>
              LET sp == Spine(ty, val)
                  args == [k \in DOMAIN sp |-> ToM("optimized", sp[k][1], sp[k][2])] IN
              /\ FromM(ty, <<"seq", args>>) = Ok(val)
              /\ FromM(ty, Prim(PPair, args)) = Ok(val)
              /\ FromM(ty, NestPairs(args)) = Ok(val)
\* timestamps: text exactly inside the years 1000..9999 in readable mode, integers everywhere else
TsRule == pc # "render" /\ ty = TTs =>
            /\ (nodes[1][1] = "text") = (Le(Y1000, val[2]) /\ Lt(val[2], Y10000))
            /\ nodes[1][1] \in {"text", "int"} /\ nodes[2] = IntNode(val[2]) /\ nodes[3] = IntNode(val[2])
            /\ (nodes[4] # nodes[1]) = (TsZone(val[2]) = "either")
\* VCmp is MichSem's order wherever MichSem's native numbers can express the operands
RECURSIVE Small(_), Native(_)
Small(v) == CASE v[1] = "i" -> Len(v[2][2]) <= 3
              [] v[1] \in {"some", "l", "r"} -> Small(v[2])
              [] v[1] = "p" -> Small(v[2]) /\ Small(v[3])
              [] OTHER -> TRUE
Native(v) == CASE v[1] = "i" -> <<"i", BI!ToInt(v[2])>>
               [] v[1] \in {"some", "l", "r"} -> <<v[1], Native(v[2])>>
               [] v[1] = "p" -> <<"p", Native(v[2]), Native(v[3])>>
               [] OTHER -> v
Keys == IF ty[1] = "set" THEN val[2] ELSE IF ty[1] = "map" THEN [k \in DOMAIN val[2] |-> val[2][k][1]] ELSE <<>>
CmpAgrees == pc = "render" => \A i, j \in DOMAIN Keys :
               Small(Keys[i]) /\ Small(Keys[j]) => VCmp(ty[2], Keys[i], Keys[j]) = Sem!Cmp(ty[2], Native(Keys[i]), Native(Keys[j]))

\* ---------- C04 ----------
PackRoundTrip == pc \in {"unpacked", "done"} /\ packed # <<>> => unp = <<TRUE, val, FALSE>>
\* 0x05, then the binary form of the optimized notation in which combs of four or more are sequences
PackShape == pc = "packed" => packed = <<5>> \o MC!Forge(DeclToM("optimized", ty, val)) /\ packed = Pack(ty, val)
\* data packed the old way (nested binary pairs) still unpacks to the value: the reader accepts every comb notation
LegacyUnpacks == pc = "packed" => Unpack(ty, legacy) = <<TRUE, val, FALSE>>
\* truncated, extended, non-minimal, unknown-tag, wrong-prefix inputs are not binary Micheline: None
Strict == pc = "done" => \A m \in muts : m[1] \in StrictClasses => ~m[4][1] /\ m[4][2][2] \in {"prefix", "decode"}
\* different values of a type pack differently
PackedOf == [t \in Types |-> {<<v, Pack(t, v)>> : v \in Vals(t, 0)}]
Injective == pc = "packed" => \A p \in PackedOf[ty] : p[2] = packed => p[1] = val
PatchOK == pc = "unpacked" => \A m \in PMutants(nodes[2], Tail(packed)) : MC!ApplyPatch(packed, MC!Patch(packed, m[3])) = m[3]
NonVacuous == pc = "done" /\ packed # <<>> => muts # {}
=============================================================================
