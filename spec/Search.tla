------------------------------ MODULE Search ------------------------------
(* Chain-history search (src/pytezos/rpc/search.py): sample the value every `step` levels
   from the head down to and including the start level, then bisect every sampled
   interval whose end values differ, walking an interval that hides several changes.
   One action per probe get(level).  Property C29.

   Histories are those in which the value never returns to an earlier value; such a
   history over (last, head] is determined by its set of change levels, the value at a
   level being the number of changes at or below it. *)
EXTENDS Integers, Sequences, FiniteSets, TLC
CONSTANTS Last0,        \* the start level
          MaxRange,     \* head - last ranges over 1..MaxRange
          MaxChanges,
          Steps         \* sampling steps tried

VARIABLES head, changes, step, mode,      \* the input, fixed after Init
          pc, cur, succ, intervals,       \* sampling
          wl, wv, target, ihi, bs, be,    \* walking / bisecting one interval
          out, probes
vars == <<head, changes, step, mode, pc, cur, succ, intervals, wl, wv, target, ihi, bs, be, out, probes>>
input == <<head, changes, step, mode>>

H(level) == Cardinality({c \in changes : c <= level})
RECURSIVE SubsetsUpTo(_, _)
SubsetsUpTo(S, k) == IF k = 0 THEN {{}} ELSE LET R == SubsetsUpTo(S, k - 1) IN R \cup {r \cup {x} : r \in R, x \in S}
Max2(a, b) == IF a > b THEN a ELSE b

\* explicit inputs <<head, set of change levels, step>> beyond the enumerated universe (dense and long histories); overridden by a wrapper module
Given == {}
Init == /\ \/ /\ head \in Last0 + 1 .. Last0 + MaxRange
              /\ changes \in SubsetsUpTo(Last0 + 1 .. head, MaxChanges)
              /\ step \in Steps
              /\ mode \in {"all", "first"}
              /\ (mode = "first" => changes # {} /\ step = CHOOSE s \in Steps : TRUE)   \* single-change search has no step; needs a change
           \/ \E g \in Given : head = g[1] /\ changes = g[2] /\ step = g[3] /\ mode = "all"
        /\ pc = "start" /\ cur = 0 /\ succ = 0 /\ intervals = <<>>
        /\ wl = 0 /\ wv = 0 /\ target = 0 /\ ihi = 0 /\ bs = 0 /\ be = 0 /\ out = <<>> /\ probes = <<>>

Probe(l) == probes' = Append(probes, l)

\* ---- find_state_changes ----
Start == /\ pc = "start" /\ mode = "all"
         /\ succ' = H(head) /\ cur' = head /\ pc' = "sample" /\ Probe(head)
         /\ UNCHANGED <<input, intervals, wl, wv, target, ihi, bs, be, out>>
Sample == /\ pc = "sample"
          /\ IF cur = Last0
             THEN pc' = "next" /\ UNCHANGED <<cur, succ, intervals, probes>>
             ELSE LET lvl == Max2(cur - step, Last0)
                      v == H(lvl) IN
                  /\ Probe(lvl) /\ cur' = lvl /\ pc' = "sample"
                  /\ IF v # succ
                     THEN /\ intervals' = <<[lo |-> lvl, hi |-> cur, vlo |-> v, vhi |-> succ]>> \o intervals
                          /\ succ' = v
                     ELSE UNCHANGED <<intervals, succ>>
          /\ UNCHANGED <<input, wl, wv, target, ihi, bs, be, out>>
NextInterval == /\ pc = "next"
                /\ IF intervals = <<>> THEN pc' = "done" /\ UNCHANGED <<intervals, wl, wv, target, ihi>>
                   ELSE /\ wl' = Head(intervals).lo /\ wv' = Head(intervals).vlo
                        /\ target' = Head(intervals).vhi /\ ihi' = Head(intervals).hi
                        /\ intervals' = Tail(intervals) /\ pc' = "walk"
                /\ UNCHANGED <<input, cur, succ, bs, be, out, probes>>
Walk == /\ pc = "walk"
        /\ IF wv = target THEN pc' = "next" /\ UNCHANGED <<bs, be>>
           ELSE bs' = wl /\ be' = ihi /\ pc' = "bisect"
        /\ UNCHANGED <<input, cur, succ, intervals, wl, wv, target, ihi, out, probes>>
\* ---- find_state_change (also the inner loop of the walk) ----
StartFirst == /\ pc = "start" /\ mode = "first"
              /\ wl' = Last0 /\ wv' = H(Last0) /\ ihi' = head /\ bs' = Last0 /\ be' = head /\ pc' = "bisect"
              /\ UNCHANGED <<input, cur, succ, intervals, target, out, probes>>
Bisect == /\ pc = "bisect"
          /\ IF be = bs + 1
             THEN /\ Probe(be) /\ out' = Append(out, <<be, H(be)>>)
                  /\ wl' = be /\ wv' = H(be)
                  /\ pc' = IF mode = "first" THEN "done" ELSE "walk"
                  /\ UNCHANGED <<bs, be>>
             ELSE LET mid == (be + bs) \div 2 IN
                  /\ Probe(mid)
                  /\ IF H(mid) = wv THEN bs' = mid /\ be' = be ELSE be' = mid /\ bs' = bs
                  /\ UNCHANGED <<out, wl, wv, pc>>
          /\ UNCHANGED <<input, cur, succ, intervals, target, ihi>>
Next == Start \/ Sample \/ NextInterval \/ Walk \/ StartFirst \/ Bisect
Spec == Init /\ [][Next]_vars

\* ---- C29 ----
RECURSIVE SortedSeq(_)
SortedSeq(S) == IF S = {} THEN <<>> ELSE LET m == CHOOSE x \in S : \A y \in S : x <= y IN <<m>> \o SortedSeq(S \ {m})
Expected == LET cs == SortedSeq(changes) IN [k \in DOMAIN cs |-> <<cs[k], H(cs[k])>>]
AllChangesReported == pc = "done" /\ mode = "all" => out = Expected
FirstChangeReported == pc = "done" /\ mode = "first" => out = <<Expected[1]>>
Increasing == \A k \in 1..Len(out) - 1 : out[k][1] < out[k + 1][1]
ProbesInRange == \A k \in DOMAIN probes : probes[k] >= Last0 /\ probes[k] <= head
\* Leg B export: every completed search is printed once (TLC evaluates an invariant once per distinct state)
EmitDone == pc = "done" => PrintT(<<"OUT", head, SortedSeq(changes), step, mode, out>>)
BisectInv == pc = "bisect" => bs < be /\ H(bs) = wv /\ H(be) # wv
=============================================================================
