---------------------------- MODULE RpcErrors ----------------------------
(* RpcError.from_errors (src/pytezos/rpc/node.py): choice of the exception class for a
   list of node errors.  Identifiers are sequences of components ("proto.alpha.tez.x" is
   <<"proto","alpha","tez","x">>); registry keys are sequences of components as well.
   The code walks a list of candidate keys in order; the model does the same, one
   candidate per step, and C27 is the invariant that the final class is the most specific
   registered one in the order  full id > id without proto.<name>. > final component >
   category > generic. *)
EXTENDS Integers, Sequences, TLC
CONSTANTS Registry,     \* set of <<key, class>>
          Ids,          \* identifiers that may occur as the last error
          OtherIds,     \* identifiers for earlier errors of the list
          MaxErrs
Generic == "RpcError"
Keys == {kc[1] : kc \in Registry}
ClassOf(k) == (CHOOSE kc \in Registry : kc[1] = k)[2]

HasProto(id) == Len(id) > 2 /\ id[1] = "proto"
Candidates(id) ==
  <<id>>
  \o (IF HasProto(id) THEN <<SubSeq(id, 3, Len(id))>> ELSE <<>>)
  \o (IF Len(id) > 1 THEN << <<id[Len(id)]>>, <<id[Len(id) - 1]>> >> ELSE <<>>)

VARIABLES errs, pc, i, class
vars == <<errs, pc, i, class>>
Init == /\ errs \in {<<>>} \cup {<<x>> : x \in Ids}
                 \cup (IF MaxErrs >= 2 THEN {<<o, x>> : o \in OtherIds, x \in Ids} ELSE {})
                 \cup (IF MaxErrs >= 3 THEN {<<o, p, x>> : o \in OtherIds, p \in OtherIds, x \in Ids} ELSE {})
        /\ pc = "start" /\ i = 0 /\ class = "none"
LastId == errs[Len(errs)]
Start == /\ pc = "start"
         /\ IF errs = <<>> THEN pc' = "done" /\ class' = Generic /\ i' = i
            ELSE pc' = "try" /\ i' = 1 /\ class' = class
         /\ UNCHANGED errs
Try == /\ pc = "try"
       /\ IF i > Len(Candidates(LastId)) THEN pc' = "done" /\ class' = Generic /\ i' = i
          ELSE IF Candidates(LastId)[i] \in Keys
               THEN pc' = "done" /\ class' = ClassOf(Candidates(LastId)[i]) /\ i' = i
               ELSE pc' = "try" /\ i' = i + 1 /\ class' = class
       /\ UNCHANGED errs
Next == Start \/ Try
Spec == Init /\ [][Next]_vars

(* declarative reading of "most specific registered class" *)
Level(id, k) == Candidates(id)[k]
MostSpecific(id) ==
  IF \E k \in DOMAIN Candidates(id) : Level(id, k) \in Keys
  THEN LET k == CHOOSE k \in DOMAIN Candidates(id) :
                   /\ Level(id, k) \in Keys
                   /\ \A j \in 1..k-1 : Level(id, j) \notin Keys
       IN ClassOf(Level(id, k))
  ELSE Generic
MostSpecificWins == pc = "done" => class = (IF errs = <<>> THEN Generic ELSE MostSpecific(LastId))
OnlyLastErrorMatters == pc = "done" /\ errs # <<>> => class = MostSpecific(LastId)
KeysFunctional == \A a, b \in Registry : a[1] = b[1] => a[2] = b[2]
=============================================================================
