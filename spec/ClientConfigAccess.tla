--------------------------- MODULE ClientConfigAccess ---------------------------
(* The accessors of ExecutionContext (src/pytezos/context/impl.py) as priority chains (growth of the specification,
   X08, second part; see ClientConfig.tla for the first).

   Every get_* accessor answers from the first available source of its chain
        explicit value given to the context  >  derived from the key  >  asked from the node  >  dummy default
   (a chain names only the sources that make sense for the accessor).  One state machine run = one accessor on one
   configuration: Init picks the accessor and which sources are available, Walk looks at one source per step - like
   the if / elif ladders of the code -, Done holds the source that answered and whether the answer is a value or a
   documented refusal (NotImplementedError / Exception).

   Mode "override": the value override of _spawn_context (`balance` of ContractView.onchain_view: "patch BALANCE"):
   argument > value of the receiver's context > the chain of the accessor.
   DEVIATION (modelled as coded, operator OverrideAsCodedFalsyZero): the code writes `balance or self.context.balance`,
   so the explicit argument 0 is taken for "not given".  Both answers are carried (`res` intended, `coded` as coded). *)
EXTENDS Integers, Sequences, FiniteSets, TLC
CONSTANTS Modes,         \* subset of {"access", "override"}
          Accessors
VARIABLES Mode,   \* "access" | "override" (chosen by Init)
          acc,    \* accessor
          ex,     \* explicit value: "absent" | "zero" | "value"       (override mode: the argument)
          ky,     \* key: "absent" | "full" | "pub" | "hash"          (override mode: unused, "absent")
          sh,     \* shell: "absent" | "present"                      (override mode: value of the receiver's context)
          i, pc, res, coded
vars == <<Mode, acc, ex, ky, sh, i, pc, res, coded>>

NodeChain == {"now", "level", "balance", "chain_id", "protocol", "min_block_time"}
KeyChain == {"sender", "source"}
PlainChain == {"self_address", "amount"}
VoteChain == {"total_voting_power", "voting_power"}
DummyChain == {"dummy_key_hash", "dummy_address", "dummy_txr_address", "dummy_public_key"}
Chain(a) == CASE a \in NodeChain \cup VoteChain \cup {"counter"} -> <<"explicit", "node", "dummy">>
              [] a \in KeyChain -> <<"explicit", "key", "dummy">>
              [] a \in PlainChain -> <<"explicit", "dummy">>
              [] a \in DummyChain -> <<"key", "dummy">>
ZeroMeaningful == {"now", "level", "balance", "amount", "total_voting_power", "counter"}   \* 0 is a legitimate explicit value
Avail(a, s) == CASE s = "explicit" -> ex # "absent"
                 [] s = "key" -> ky # "absent"
                 [] s = "node" -> sh = "present" /\ (a = "counter" => ky # "absent")      \* the counter of WHOM
                 [] s = "dummy" -> TRUE
\* documented refusals: no voting power RPC binding, no default protocol, no counter without key and node
Outcome(a, s) == IF \/ (a \in VoteChain /\ s = "node")
                    \/ (a \in {"protocol", "counter"} /\ s = "dummy")
                 THEN "raise" ELSE "value"

InitAccess == /\ Mode = "access" /\ "access" \in Modes /\ acc \in Accessors
              /\ ex \in (IF "explicit" \in {Chain(acc)[j] : j \in 1..Len(Chain(acc))}
                         THEN (IF acc \in ZeroMeaningful THEN {"absent", "zero", "value"} ELSE {"absent", "value"})
                         ELSE {"absent"})
              /\ ky \in (IF acc = "dummy_public_key" THEN {"absent", "full", "pub"} ELSE {"absent", "full", "pub", "hash"})
              /\ sh \in {"absent", "present"}
InitOverride == /\ Mode = "override" /\ "override" \in Modes /\ acc = "balance" /\ ex \in {"absent", "zero", "value"} /\ ky = "absent"
                /\ sh \in {"absent", "zero", "value"}
Init == /\ (InitAccess \/ InitOverride) /\ i = 1 /\ pc = "walk" /\ res = <<"none", "none">> /\ coded = <<"none", "none">>

Walk == /\ pc = "walk" /\ Mode = "access"
        /\ LET s == Chain(acc)[i] IN
           IF Avail(acc, s) THEN /\ res' = <<s, Outcome(acc, s)>> /\ coded' = res' /\ pc' = "done" /\ UNCHANGED i
           ELSE /\ i' = i + 1 /\ UNCHANGED <<pc, res, coded>>
        /\ UNCHANGED <<Mode, acc, ex, ky, sh>>

\* override mode: sources "arg" (the argument), "ctx" (the receiver's value), "default"
OverrideIntended == IF ex # "absent" THEN <<"arg", ex>> ELSE IF sh # "absent" THEN <<"ctx", sh>> ELSE <<"default", "zero">>
OverrideAsCodedFalsyZero == IF ex = "value" THEN <<"arg", ex>> ELSE IF sh # "absent" THEN <<"ctx", sh>> ELSE <<"default", "zero">>
Override == /\ pc = "walk" /\ Mode = "override"
            /\ res' = OverrideIntended /\ coded' = OverrideAsCodedFalsyZero /\ pc' = "done"
            /\ UNCHANGED <<Mode, acc, ex, ky, sh, i>>
Next == Walk \/ Override
Spec == Init /\ [][Next]_vars

\* =========================== what a user relies on ===========================
Min(S) == CHOOSE x \in S : \A y \in S : x <= y
AvailIx == {j \in 1..Len(Chain(acc)) : Avail(acc, Chain(acc)[j])}
\* total: every configuration is answered (no chain runs off its end)
Total == Mode = "access" => AvailIx # {} /\ i <= Len(Chain(acc))
\* priority: the answer comes from the first available source, whatever is available behind it
Priority == (Mode = "access" /\ pc = "done") => res[1] = Chain(acc)[Min(AvailIx)] /\ i = Min(AvailIx)
\* an explicit value always wins, also the value 0
ExplicitWins == (Mode = "access" /\ pc = "done" /\ ex # "absent") => res = <<"explicit", "value">>
\* a refusal only where nothing can be answered
RefusalOnlyDocumented == (Mode = "access" /\ pc = "done" /\ res[2] = "raise") =>
   \/ acc \in VoteChain /\ ex = "absent" /\ sh = "present"
   \/ acc = "protocol" /\ ex = "absent" /\ sh = "absent"
   \/ acc = "counter" /\ ex = "absent" /\ (sh = "absent" \/ ky = "absent")
\* override: an argument that is given wins, also 0; otherwise the receiver's value is inherited
ArgumentWins == (Mode = "override" /\ pc = "done") =>
   /\ (ex # "absent" => res = <<"arg", ex>>)
   /\ (ex = "absent" /\ sh # "absent" => res = <<"ctx", sh>>)
   /\ (coded[2] # res[2] => ex = "zero" /\ sh = "value")      \* the deviation is confined to the argument 0 over a non-zero value
Emit == pc = "done" => PrintT(<<"OUT", Mode, acc, ex, ky, sh, res, coded>>)
=============================================================================
