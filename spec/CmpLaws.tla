------------------------------ MODULE CmpLaws ------------------------------
(* Leg A of C03: the comparison of the reference semantics (MichSem!Cmp) is a total order on
   every comparable type of the pool, and sorted insertion keeps collections strictly
   sorted.  The pool (type -> sequence of values) comes from a generated wrapper module. *)
EXTENDS MichSem
CONSTANTS Types,        \* set of comparable types
          ValuesOf(_)   \* type -> set of values of that type
VARIABLES t, a, b, c
vars == <<t, a, b, c>>
Init == t \in Types /\ a \in ValuesOf(t) /\ b \in ValuesOf(t) /\ c \in ValuesOf(t)
Next == UNCHANGED vars
Spec == Init /\ [][Next]_vars
WellTyped == Comparable(t) /\ HasType(a, t)
Range == Cmp(t, a, b) \in {-1, 0, 1}
Reflexive == Cmp(t, a, a) = 0
Antisymmetric == Cmp(t, a, b) = -Cmp(t, b, a)
EqualIsIdentity == Cmp(t, a, b) = 0 => a = b
Transitive == Cmp(t, a, b) <= 0 /\ Cmp(t, b, c) <= 0 => Cmp(t, a, c) <= 0
SetInsertSorted == LET s1 == SetIns(t, SetIns(t, SetIns(t, <<>>, a), b), c)
                       s2 == SetIns(t, SetIns(t, SetIns(t, <<>>, c), a), b) IN
                   StrictlySorted(t, s1) /\ s1 = s2          \* order of insertion is irrelevant, no duplicates
=============================================================================
