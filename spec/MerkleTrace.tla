---------------------------- MODULE MerkleTrace ----------------------------
(* Leg C for C31: the blake2b evaluations that pytezos performs during one call of
   operation_list_hash / operation_list_list_hash / block_payload_hash are recorded at the
   library boundary (hashlib.blake2b).  The recorder only *names* things: every hashed input
   is split into the known 32-byte strings it is made of (an operation hash <<"op", j, t>>,
   the predecessor <<"pred">>, the round <<"round">>, or the digest of an earlier evaluation
   <<"id", e>>).  This module rebuilds, evaluation by evaluation, the symbolic term of every
   digest and accepts a trace iff the term of the returned digest is the reference Merkle
   root of spec Merkle for that input.  The order and number of evaluations are free.
   A trace that is not accepted is reported with PrintT(<<"REJECT", ...>>) and the run goes on. *)
EXTENDS Integers, Sequences, TLC, Json, IOUtils, TLCExt
CONSTANTS MaxLen, MaxOuter, InnerLens, MaxOuterLong
VARIABLES mode, shape, k, roots, a, n, i, pc, root,    \* Merkle's variables (mode, shape: the input of the current trace)
          tid, l, terms
M == INSTANCE Merkle

Traces == JsonDeserialize(IOEnv.TRACE_FILE)
tvars == <<mode, shape, k, roots, a, n, i, pc, root, tid, l, terms>>
ToSeq(x) == [j \in 1..Len(x) |-> x[j]]

T == Traces[tid]
Load(t) == mode' = Traces[t].mode /\ shape' = ToSeq(Traces[t].shape)
Init == /\ tid = 1 /\ l = 1 /\ terms = <<>> /\ TLCSet(1, 0)
        /\ mode = (IF Len(Traces) > 0 THEN Traces[1].mode ELSE "ol")
        /\ shape = (IF Len(Traces) > 0 THEN ToSeq(Traces[1].shape) ELSE <<0>>)
        /\ k = 1 /\ roots = <<>> /\ a = <<>> /\ n = 0 /\ i = 0 /\ pc = "trace" /\ root = <<"none">>

Part(p) == IF p[1] = "id" THEN terms[p[2]] ELSE ToSeq(p)
Eval(ev) == M!Hash([j \in 1..Len(ev) |-> Part(ev[j])])
WellFormed(ev) == \A j \in 1..Len(ev) : ev[j][1] = "id" => ev[j][2] \in 1..Len(terms)

Reject(why, x) == PrintT(<<"REJECT", tid, l, why, x>>) /\ TLCSet(1, TLCGet(1) + 1)
NextTrace == /\ tid' = tid + 1 /\ l' = 1 /\ terms' = <<>>
             /\ IF tid + 1 <= Len(Traces) THEN Load(tid + 1) ELSE UNCHANGED <<mode, shape>>

Next ==
  /\ tid <= Len(Traces)
  /\ IF l <= Len(T.evs)
     THEN IF WellFormed(T.evs[l])
          THEN terms' = Append(terms, Eval(T.evs[l])) /\ l' = l + 1 /\ UNCHANGED <<tid, mode, shape>>
          ELSE Reject("evaluation uses an unknown digest", T.evs[l]) /\ NextTrace
     ELSE /\ IF T.res \in 1..Len(terms)
             THEN IF terms[T.res] = M!Reference(mode, shape) THEN TRUE
                  ELSE Reject("returned digest is not the reference root", <<mode, shape>>)
             ELSE Reject("returned value is not a recorded digest", <<mode, shape>>)
          /\ NextTrace
  /\ UNCHANGED <<k, roots, a, n, i, pc, root>>

Spec == Init /\ [][Next]_tvars
AllConsumed == tid = Len(Traces) + 1
Accepted == TLCGet(1) = 0
=============================================================================
