--------------------------- MODULE MichelineCodec ---------------------------
(* C05 - Micheline binary encoding (Tezos `Micheline_encoding.canonical_encoding`, data-encoding
   binary format), written from the Tezos binary schema, not from pytezos.

   Nodes (tag-first tuples; byte strings are Seq(0..255); annotations are a list of byte strings):
     <<"int", neg, mag>>            mag = little-endian base-256 limbs without leading zero limb, 0 = <<FALSE, <<>>>>
     <<"string", bytes>>   <<"bytes", bytes>>   <<"seq", <<nodes>>>>
     <<"prim", tag, <<args>>, <<annots>>>>      tag = number of the primitive in the protocol table below

   Forge(node) is the encoder.  Unforge(bytes) is the strict decoder, an explicit read-pointer
   automaton <<ok, node, next position, relaxed>>: truncation, length-prefix faults, unknown tags and
   non-minimal integers are ordinary transitions to Bad.  `relaxed` marks the two non-canonical inputs
   data-encoding accepts (negative zero 0x40, an annotation field that is present but empty, a generic
   (tag 9) application with fewer than three arguments); C05 does not demand their rejection.

   State machine: Init picks a node of the bounded universe, Encode forges it, Decode unforges the
   result, Mutate derives the malformed / perturbed byte strings and runs the strict decoder on each.
   RoundTrip, Injective, Strict and Canon are the invariants (Leg A); the dump is replayed through
   pytezos' forge_micheline / unforge_micheline (Leg B). *)
EXTENDS Integers, Sequences, FiniteSets, TLC

CONSTANTS Mags,        \* magnitudes (limb sequences) for the integer leaves
          TagsA,       \* primitive tags combined with every argument / annotation shape
          TagsB,       \* primitive tags used on three fixed shapes (thorough: all of 0..MaxPrimTag)
          Depth,       \* 2 or 3
          TopTags,     \* unknown node tags tried at the top level (subset of 11..255)
          BadPrimTags, \* unknown primitive tags tried (above the protocol maximum)
          ByteSpan     \* single-byte replacements are tried on the first ByteSpan bytes

\* ---------- primitive table of the protocol (michelson_v1_primitives, through Seoul): tag = index - 1 ----------
PrimName == <<
  "parameter", "storage", "code", "False", "Elt", "Left", "None", "Pair", "Right", "Some", "True", "Unit",
  "PACK", "UNPACK", "BLAKE2B", "SHA256", "SHA512", "ABS", "ADD", "AMOUNT", "AND", "BALANCE", "CAR", "CDR",
  "CHECK_SIGNATURE", "COMPARE", "CONCAT", "CONS", "CREATE_ACCOUNT", "CREATE_CONTRACT", "IMPLICIT_ACCOUNT",
  "DIP", "DROP", "DUP", "EDIV", "EMPTY_MAP", "EMPTY_SET", "EQ", "EXEC", "FAILWITH", "GE", "GET", "GT",
  "HASH_KEY", "IF", "IF_CONS", "IF_LEFT", "IF_NONE", "INT", "LAMBDA", "LE", "LEFT", "LOOP", "LSL", "LSR", "LT",
  "MAP", "MEM", "MUL", "NEG", "NEQ", "NIL", "NONE", "NOT", "NOW", "OR", "PAIR", "PUSH", "RIGHT", "SIZE", "SOME",
  "SOURCE", "SENDER", "SELF", "STEPS_TO_QUOTA", "SUB", "SWAP", "TRANSFER_TOKENS", "SET_DELEGATE", "UNIT",
  "UPDATE", "XOR", "ITER", "LOOP_LEFT", "ADDRESS", "CONTRACT", "ISNAT", "CAST", "RENAME", "bool", "contract",
  "int", "key", "key_hash", "lambda", "list", "map", "big_map", "nat", "option", "or", "pair", "set",
  "signature", "string", "bytes", "mutez", "timestamp", "unit", "operation", "address", "SLICE", "DIG", "DUG",
  "EMPTY_BIG_MAP", "APPLY", "chain_id", "CHAIN_ID", "LEVEL", "SELF_ADDRESS", "never", "NEVER", "UNPAIR",
  "VOTING_POWER", "TOTAL_VOTING_POWER", "KECCAK", "SHA3", "PAIRING_CHECK", "bls12_381_g1", "bls12_381_g2",
  "bls12_381_fr", "sapling_state", "sapling_transaction_deprecated", "SAPLING_EMPTY_STATE",
  "SAPLING_VERIFY_UPDATE", "ticket", "TICKET_DEPRECATED", "READ_TICKET", "SPLIT_TICKET", "JOIN_TICKETS",
  "GET_AND_UPDATE", "chest", "chest_key", "OPEN_CHEST", "VIEW", "view", "constant", "SUB_MUTEZ",
  "tx_rollup_l2_address", "MIN_BLOCK_TIME", "sapling_transaction", "EMIT", "Lambda_rec", "LAMBDA_REC", "TICKET",
  "BYTES", "NAT", "Ticket", "IS_IMPLICIT_ACCOUNT" >>
MaxPrimTag == Len(PrimName) - 1                      \* 158
ASSUME MaxPrimTag = 158
ASSUME \A i, j \in 1..Len(PrimName) : i # j => PrimName[i] # PrimName[j]     \* the table is a bijection

\* ---------- bit helpers ----------
RECURSIVE LimbBits(_, _)
LimbBits(x, k) == IF k = 0 THEN <<>> ELSE <<x % 2>> \o LimbBits(x \div 2, k - 1)
RECURSIVE MagBits(_)
MagBits(m) == IF m = <<>> THEN <<>> ELSE LimbBits(Head(m), 8) \o MagBits(Tail(m))
RECURSIVE TrimBits(_)
TrimBits(b) == IF b = <<>> THEN <<>> ELSE IF b[Len(b)] = 0 THEN TrimBits(SubSeq(b, 1, Len(b) - 1)) ELSE b
RECURSIVE BitsVal(_)
BitsVal(b) == IF b = <<>> THEN 0 ELSE Head(b) + 2 * BitsVal(Tail(b))
Take(s, n) == SubSeq(s, 1, IF n < Len(s) THEN n ELSE Len(s))
Drop(s, n) == IF n >= Len(s) THEN <<>> ELSE SubSeq(s, n + 1, Len(s))
RECURSIVE BitsMag(_)
BitsMag(b) == IF b = <<>> THEN <<>> ELSE <<BitsVal(Take(b, 8))>> \o BitsMag(Drop(b, 8))
RECURSIVE TrimMag(_)
TrimMag(m) == IF m = <<>> THEN <<>> ELSE IF m[Len(m)] = 0 THEN TrimMag(SubSeq(m, 1, Len(m) - 1)) ELSE m

\* ---------- Zarith signed integer: first byte = continuation | sign | 6 bits, then 7-bit groups, little endian ----------
RECURSIVE Z7(_)
Z7(bits) == IF bits = <<>> THEN <<>>
            ELSE LET rest == Drop(bits, 7) IN
                 <<BitsVal(Take(bits, 7)) + (IF rest = <<>> THEN 0 ELSE 128)>> \o Z7(rest)
ZInt(neg, mag) ==
  LET bits == TrimBits(MagBits(mag))
      rest == Drop(bits, 6) IN
  <<BitsVal(Take(bits, 6)) + (IF neg /\ bits # <<>> THEN 64 ELSE 0) + (IF rest = <<>> THEN 0 ELSE 128)>> \o Z7(rest)
\* the same number with one superfluous zero group appended (what data-encoding calls a trailing zero)
ZIntNonMinimal(neg, mag) ==
  LET z == ZInt(neg, mag) IN [i \in 1..Len(z) |-> IF i = Len(z) THEN z[i] + 128 ELSE z[i]] \o <<0>>

\* ---------- encoder ----------
U32(n) == << (n \div 16777216) % 256, (n \div 65536) % 256, (n \div 256) % 256, n % 256 >>
Arr(b) == U32(Len(b)) \o b
RECURSIVE Join(_)
Join(as) == IF as = <<>> THEN <<>> ELSE IF Len(as) = 1 THEN as[1] ELSE as[1] \o <<32>> \o Join(Tail(as))
RECURSIVE Forge(_), ForgeAll(_)
ForgeAll(ns) == IF ns = <<>> THEN <<>> ELSE Forge(Head(ns)) \o ForgeAll(Tail(ns))
Forge(n) ==
  CASE n[1] = "int"    -> <<0>> \o ZInt(n[2], n[3])
    [] n[1] = "intnm"  -> <<0>> \o ZIntNonMinimal(n[2], n[3])      \* only used to build malformed inputs
    [] n[1] = "string" -> <<1>> \o Arr(n[2])
    [] n[1] = "bytes"  -> <<10>> \o Arr(n[2])
    [] n[1] = "seq"    -> <<2>> \o Arr(ForgeAll(n[2]))
    [] n[1] = "prim"   ->
         LET k == Len(n[3])
             hasA == n[4] # <<>>
             tag == IF k >= 3 THEN 9 ELSE 3 + 2 * k + (IF hasA THEN 1 ELSE 0) IN
         <<tag, n[2]>> \o (IF k >= 3 THEN Arr(ForgeAll(n[3])) ELSE ForgeAll(n[3]))
                       \o (IF k >= 3 \/ hasA THEN Arr(Join(n[4])) ELSE <<>>)

\* ---------- strict decoder ----------
\* rejection carries the reason and the offending position / tag, so that a disagreement can be classified
Bad(reason, info) == <<FALSE, <<"bad", reason, info>>, 0, FALSE>>
\* 4-byte big-endian length; data-encoding lengths are 30 bit, anything larger is rejected (-1)
RdU32(d, p) == IF p + 3 > Len(d) \/ d[p] >= 64 THEN -1
               ELSE d[p] * 16777216 + d[p+1] * 65536 + d[p+2] * 256 + d[p+3]
RECURSIVE ZEnd(_, _)          \* position of the last byte of the Zarith number starting at p, 0 if it runs off the end
ZEnd(d, p) == IF p > Len(d) THEN 0 ELSE IF d[p] >= 128 THEN ZEnd(d, p + 1) ELSE p
RECURSIVE Z7Bits(_, _, _)
Z7Bits(d, p, e) == IF p > e THEN <<>> ELSE LimbBits(d[p] % 128, 7) \o Z7Bits(d, p + 1, e)
RECURSIVE SplitSp(_, _)       \* String.split_on_char ' '
SplitSp(b, acc) == IF b = <<>> THEN <<acc>>
                   ELSE IF Head(b) = 32 THEN <<acc>> \o SplitSp(Tail(b), <<>>) ELSE SplitSp(Tail(b), Append(acc, Head(b)))
Annots(b) == IF b = <<>> THEN <<>> ELSE SplitSp(b, <<>>)

RECURSIVE Dec(_, _, _), DecMany(_, _, _, _), DecN(_, _, _, _)
\* nodes from p up to (excluding) endp; a node that crosses endp is a length inconsistency
DecMany(d, p, endp, fuel) ==
  IF p = endp THEN <<TRUE, <<>>, p, FALSE>>
  ELSE IF p > endp \/ fuel = 0 THEN Bad("length", p)        \* the previous node crossed the declared end
  ELSE LET r == Dec(d, p, fuel - 1) IN
       IF ~r[1] THEN r
       ELSE LET t == DecMany(d, r[3], endp, fuel) IN
            IF ~t[1] THEN t ELSE <<TRUE, <<r[2]>> \o t[2], t[3], r[4] \/ t[4]>>
DecN(d, p, k, fuel) ==
  IF k = 0 THEN <<TRUE, <<>>, p, FALSE>>
  ELSE IF fuel = 0 THEN Bad("length", p)
  ELSE LET r == Dec(d, p, fuel - 1) IN
       IF ~r[1] THEN r
       ELSE LET t == DecN(d, r[3], k - 1, fuel) IN
            IF ~t[1] THEN t ELSE <<TRUE, <<r[2]>> \o t[2], t[3], r[4] \/ t[4]>>
Dec(d, p, fuel) ==
  IF p > Len(d) \/ fuel = 0 THEN Bad("truncated", p) ELSE
  LET tag == d[p] IN
  CASE tag = 0 ->
         LET e == ZEnd(d, p + 1) IN
         IF e = 0 THEN Bad("truncated", p)                         \* truncated number
         ELSE IF e > p + 1 /\ d[e] = 0 THEN Bad("nonminimal-int", p) \* trailing zero group = non-minimal
         ELSE LET bits == TrimBits(LimbBits(d[p+1] % 64, 6) \o Z7Bits(d, p + 2, e))
                  sign == (d[p+1] \div 64) % 2 = 1 IN
              <<TRUE, <<"int", sign /\ bits # <<>>, TrimMag(BitsMag(bits))>>, e + 1, sign /\ bits = <<>>>>
    [] tag \in {1, 10} ->
         LET n == RdU32(d, p + 1) IN
         IF n < 0 \/ p + 4 + n > Len(d) THEN Bad("truncated", p)
         ELSE <<TRUE, <<IF tag = 1 THEN "string" ELSE "bytes", SubSeq(d, p + 5, p + 4 + n)>>, p + 5 + n, FALSE>>
    [] tag = 2 ->
         LET n == RdU32(d, p + 1) IN
         IF n < 0 \/ p + 4 + n > Len(d) THEN Bad("truncated", p)
         ELSE LET r == DecMany(d, p + 5, p + 5 + n, fuel - 1) IN
              IF ~r[1] THEN r ELSE <<TRUE, <<"seq", r[2]>>, p + 5 + n, r[4]>>
    [] tag \in 3..8 ->
         IF p + 1 > Len(d) THEN Bad("truncated", p)
         ELSE IF d[p+1] > MaxPrimTag THEN Bad("unknown-prim", d[p+1])   \* unknown primitive
         ELSE
         LET k == (tag - 3) \div 2
             hasA == (tag - 3) % 2 = 1
             r == DecN(d, p + 2, k, fuel - 1) IN
         IF ~r[1] THEN r
         ELSE IF ~hasA THEN <<TRUE, <<"prim", d[p+1], r[2], <<>>>>, r[3], r[4]>>
         ELSE LET n == RdU32(d, r[3]) IN
              IF n < 0 \/ r[3] + 3 + n > Len(d) THEN Bad("truncated", r[3])
              ELSE <<TRUE, <<"prim", d[p+1], r[2], Annots(SubSeq(d, r[3] + 4, r[3] + 3 + n))>>, r[3] + 4 + n, r[4] \/ n = 0>>
    [] tag = 9 ->
         IF p + 1 > Len(d) THEN Bad("truncated", p)
         ELSE IF d[p+1] > MaxPrimTag THEN Bad("unknown-prim", d[p+1])
         ELSE
         LET n == RdU32(d, p + 2) IN
         IF n < 0 \/ p + 5 + n > Len(d) THEN Bad("truncated", p)
         ELSE LET r == DecMany(d, p + 6, p + 6 + n, fuel - 1) IN
              IF ~r[1] THEN r
              ELSE LET q == p + 6 + n
                       m == RdU32(d, q) IN
                   IF m < 0 \/ q + 3 + m > Len(d) THEN Bad("truncated", q)
                   ELSE <<TRUE, <<"prim", d[p+1], r[2], Annots(SubSeq(d, q + 4, q + 3 + m))>>, q + 4 + m, r[4] \/ Len(r[2]) < 3>>
    [] OTHER -> Bad("unknown-tag", tag)                            \* unknown node tag 11..255
\* a complete byte string: exactly one node, nothing after it.  Nesting cannot be deeper than the input is long.
Unforge(d) == LET r == Dec(d, 1, Len(d) + 1) IN
              IF ~r[1] THEN <<FALSE, r[2], FALSE>>
              ELSE IF r[3] # Len(d) + 1 THEN <<FALSE, <<"bad", "trailing", r[3]>>, FALSE>>
              ELSE <<TRUE, r[2], r[4]>>

\* ---------- positions of the fields inside Forge(n) placed at offset off ----------
RECURSIVE Fields(_, _), FieldsAll(_, _)
FieldsAll(ns, off) == IF ns = <<>> THEN {} ELSE Fields(Head(ns), off) \cup FieldsAll(Tail(ns), off + Len(Forge(Head(ns))))
Fields(n, off) ==
  {<<"node", off>>} \cup
  (CASE n[1] \in {"string", "bytes"} -> {<<"len", off + 1>>}
     [] n[1] = "seq" -> {<<"len", off + 1>>} \cup FieldsAll(n[2], off + 5)
     [] n[1] = "prim" ->
          LET k == Len(n[3])
              bl == Len(ForgeAll(n[3])) IN
          {<<"prim", off + 1>>} \cup
          (IF k >= 3 THEN {<<"len", off + 2>>, <<"len", off + 6 + bl>>} \cup FieldsAll(n[3], off + 6)
           ELSE FieldsAll(n[3], off + 2) \cup (IF n[4] # <<>> THEN {<<"len", off + 2 + bl>>} ELSE {}))
     [] OTHER -> {})

ReplaceAt(s, i, v) == [j \in 1..Len(s) |-> IF j = i THEN v ELSE s[j]]
\* every way of spelling exactly one integer of n non-minimally (all length prefixes stay consistent)
RECURSIVE NMVar(_)
NMVar(n) ==
  CASE n[1] = "int" -> {<<"intnm", n[2], n[3]>>}
    [] n[1] = "seq" -> UNION {{<<"seq", ReplaceAt(n[2], i, v)>> : v \in NMVar(n[2][i])} : i \in 1..Len(n[2])}
    [] n[1] = "prim" -> UNION {{<<"prim", n[2], ReplaceAt(n[3], i, v), n[4]>> : v \in NMVar(n[3][i])} : i \in 1..Len(n[3])}
    [] OTHER -> {}

SetByte(d, p, v) == [j \in 1..Len(d) |-> IF j = p THEN v ELSE d[j]]
SetU32(d, p, v) == LET w == IF v < 0 THEN <<255, 255, 255, 255>> ELSE U32(v) IN
                   [j \in 1..Len(d) |-> IF j >= p /\ j <= p + 3 THEN w[j - p + 1] ELSE d[j]]
Min2(a, b) == IF a < b THEN a ELSE b

\* <<class, detail, bytes>>
Mutants(n, b) ==
  LET L == Len(b)
      F == Fields(n, 1)
      ks == IF L <= 64 THEN 0..(L - 1) ELSE (0..32) \cup ((L - 32)..(L - 1)) IN
  {<<"trunc", k, SubSeq(b, 1, k)>> : k \in ks}
  \cup {<<"extend", x, b \o <<x>>>> : x \in {0, 3, 255}}
  \cup {<<"len+1", f[2], SetU32(b, f[2], RdU32(b, f[2]) + 1)>> : f \in {g \in F : g[1] = "len"}}
  \cup {<<"len-1", f[2], SetU32(b, f[2], RdU32(b, f[2]) - 1)>> : f \in {g \in F : g[1] = "len"}}
  \cup {<<"nonmin", 0, Forge(v)>> : v \in NMVar(n)}
  \cup {<<"toptag", t, SetByte(b, 1, t)>> : t \in TopTags}
  \cup {<<"nodetag", f[2], SetByte(b, f[2], t)>> : f \in {g \in F : g[1] = "node" /\ g[2] > 1}, t \in {11, 255}}
  \cup {<<"primtag", f[2], SetByte(b, f[2], t)>> : f \in {g \in F : g[1] = "prim"}, t \in BadPrimTags}
  \cup {<<"byte", i, SetByte(b, i, (b[i] + x) % 256)>> : i \in 1..Min2(L, ByteSpan), x \in {1, 255, 128}}
\* compact description of a derived byte string m relative to b: m = b[1..lo-1] \o repl \o (last s bytes of b)
RECURSIVE Pre(_, _, _), Suf(_, _, _, _)
Pre(b, m, i) == IF i > Len(b) \/ i > Len(m) \/ b[i] # m[i] THEN i ELSE Pre(b, m, i + 1)
Suf(b, m, s, max) == IF s >= max \/ b[Len(b) - s] # m[Len(m) - s] THEN s ELSE Suf(b, m, s + 1, max)
Patch(b, m) == LET lo == Pre(b, m, 1)
                   s == Suf(b, m, 0, Min2(Len(b), Len(m)) - (lo - 1)) IN
               <<lo, s, SubSeq(m, lo, Len(m) - s)>>
ApplyPatch(b, q) == SubSeq(b, 1, q[1] - 1) \o q[3] \o SubSeq(b, Len(b) - q[2] + 1, Len(b))
\* classes whose members the strict decoder must reject whatever the node is
StrictClasses == {"trunc", "extend", "nonmin", "toptag", "nodetag", "primtag"}

\* ---------- bounded universe (generated, never SUBSET) ----------
I(neg, m) == <<"int", neg, m>>
P(t, a, an) == <<"prim", t, a, an>>
S(a) == <<"seq", a>>
Ints == {I(s, m) : s \in BOOLEAN, m \in Mags} \ {I(TRUE, <<>>)}
Texts == {<<"string", <<>>>>, <<"string", <<97>>>>, <<"string", <<97, 32, 34, 92, 10, 126>>>>}
Blobs == {<<"bytes", <<>>>>, <<"bytes", <<0, 255>>>>}
Leaves == Ints \cup Texts \cup Blobs
A1 == <<37, 97>>            \* %a
A2 == <<58, 98>>            \* :b
AnnA == {<<>>, <<A1>>, <<A2, A1>>, <<<<64>>>>}         \* none, %a, ":b %a" (not in byte order), a bare @
AnnB == {<<>>, <<A1>>}
Lists2(Q) == {<<>>} \cup {<<x>> : x \in Q} \cup {<<x, y>> : x \in Q, y \in Q}
Long(Q) == {<<x, y, x>> : x \in Q, y \in Q} \cup {<<x, x, x, x>> : x \in Q}
ArgLists(Q) == Lists2(Q) \cup Long(Q)
one == I(FALSE, <<1>>)
Q0 == {one, I(TRUE, <<64>>), <<"string", <<97>>>>, <<"bytes", <<>>>>}
L1 == Leaves \cup {P(7, a, an) : a \in ArgLists(Q0), an \in AnnA} \cup {P(t, a, an) : t \in TagsA, a \in ArgLists(Q0), an \in AnnB}
      \cup {S(a) : a \in ArgLists(Q0)}
      \cup UNION {{P(t, <<>>, <<>>), P(t, <<one>>, <<A1>>), P(t, <<one, one, one>>, <<>>)} : t \in TagsB}
Q1 == {one, P(7, <<>>, <<>>), P(7, <<one>>, <<A1>>), S(<<>>), S(<<one, <<"string", <<97>>>>>>),
       P(0, <<one, one, one>>, <<A1, A2>>)} \cup (IF Depth >= 3 THEN {<<"string", <<97>>>>, P(MaxPrimTag, <<one, one, one>>, <<>>)} ELSE {})
L2 == {P(7, a, an) : a \in ArgLists(Q1), an \in AnnB} \cup {S(a) : a \in ArgLists(Q1)}
Q2 == {one, S(<<S(<<>>)>>), P(7, <<P(7, <<one>>, <<A1>>), S(<<>>)>>, <<>>), P(5, <<S(<<one, I(TRUE, <<0, 1>>)>>)>>, <<A1>>),
       P(9, <<P(7, <<one, one, one>>, <<A2>>)>>, <<>>)}
L3 == {P(7, a, an) : a \in ArgLists(Q2), an \in AnnB} \cup {S(a) : a \in ArgLists(Q2)}
\* wide and deep trees, far beyond the enumerated sizes: hundreds of siblings of each leaf kind, length fields above 255, nesting of 300, annotation fields
\* longer than 255 bytes made of annotations that are each within the protocol's per-annotation limit
Wide == FALSE         \* overridden by the C05 configuration (Wide <- WideV)
Rep(k, x) == [j \in 1..k |-> x]
Ann(k, c) == <<37>> \o Rep(k - 1, 97 + c)
RECURSIVE NestS(_), NestP(_)
NestS(k) == IF k = 0 THEN one ELSE S(<<NestS(k - 1)>>)
NestP(k) == IF k = 0 THEN <<"bytes", <<1>>>> ELSE P(5, <<NestP(k - 1)>>, <<>>)
WideU == IF ~Wide THEN {} ELSE
  { S([j \in 1..300 |-> <<"bytes", <<j % 256>>>>]), S([j \in 1..300 |-> I(j % 2 = 0, <<1 + (j % 255)>>)]), S([j \in 1..300 |-> <<"string", <<97 + (j % 26)>>>>]),
    S(Rep(300, P(7, <<>>, <<>>))), P(7, Rep(300, <<"bytes", <<>>>>), <<>>), NestS(300), NestP(300),
    <<"bytes", [j \in 1..300 |-> j % 256]>>, <<"string", [j \in 1..300 |-> 97 + (j % 26)]>>,
    P(7, <<one>>, <<Ann(70, 1), Ann(70, 2), Ann(70, 3), Ann(70, 4)>>), P(7, <<one, one>>, <<Ann(128, 1), Ann(128, 2)>>), P(7, <<>>, <<Ann(255, 1)>>),
    P(7, <<one, one, one>>, <<Ann(127, 1), Ann(127, 2)>>), P(0, <<>>, <<Ann(255, 1), Ann(255, 2)>>) }
Universe == L1 \cup L2 \cup (IF Depth >= 3 THEN L3 ELSE {}) \cup WideU

\* constant-level table, evaluated once by TLC
AllForged == {<<n, Forge(n)>> : n \in Universe}

VARIABLES node, bytes, dec, muts, pc
vars == <<node, bytes, dec, muts, pc>>
None == <<FALSE, <<"none">>, FALSE>>
Init == node \in Universe /\ bytes = <<>> /\ dec = None /\ muts = {} /\ pc = "encode"
Encode == pc = "encode" /\ bytes' = Forge(node) /\ pc' = "decode" /\ UNCHANGED <<node, dec, muts>>
Decode == pc = "decode" /\ dec' = Unforge(bytes) /\ pc' = "mutate" /\ UNCHANGED <<node, bytes, muts>>
\* exported as <<class, detail, patch, verdict>>; the byte string itself is ApplyPatch(bytes, patch)
\* the wide trees get the perturbations whose number does not grow with the tree
LightMutants(n, b) ==
  LET L == Len(b) IN
  {<<"trunc", k, SubSeq(b, 1, k)>> : k \in {L - 1, L - 2, L \div 2}}
  \cup {<<"extend", x, b \o <<x>>>> : x \in {0, 255}}
  \cup {<<"toptag", t, SetByte(b, 1, t)>> : t \in {11, 255}}
Mutants2(n, b) == IF n \in WideU THEN LightMutants(n, b) ELSE Mutants(n, b)
Mutate == pc = "mutate" /\ muts' = {<<m[1], m[2], Patch(bytes, m[3]), Unforge(m[3])>> : m \in Mutants2(node, bytes)}
          /\ pc' = "done" /\ UNCHANGED <<node, bytes, dec>>
Next == Encode \/ Decode \/ Mutate
Spec == Init /\ [][Next]_vars

\* ---------- C05 ----------
RoundTrip == pc \in {"mutate", "done"} => dec = <<TRUE, node, FALSE>>
\* different (normalised) nodes never share an encoding
Injective == pc # "encode" => \A p \in AllForged : p[2] = bytes => p[1] = node
\* truncated, extended, non-minimal, unknown-tag inputs are rejected
Strict == pc = "done" => \A m \in muts : m[1] \in StrictClasses => ~m[4][1]
\* whatever else the decoder accepts is the encoding of what it returns, unless it is one of the relaxed forms
Canon == pc = "done" => \A m \in muts : m[4][1] => (Forge(m[4][2]) = ApplyPatch(bytes, m[3])) = ~m[4][3]
\* the compact export loses nothing
PatchOK == pc = "mutate" => \A m \in Mutants2(node, bytes) : ApplyPatch(bytes, Patch(bytes, m[3])) = m[3]
\* vacuity guards: the perturbation classes are inhabited, some perturbed inputs are accepted
TypeOK == pc = "done" => muts # {}
=============================================================================
