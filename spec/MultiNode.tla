---------------------------- MODULE MultiNode ----------------------------
(* RpcMultiNode (src/pytezos/rpc/node.py): round-robin choice of the node for each
   logical request.  A logical request may consist of several HTTP attempts (the retry
   loop of RpcRetry runs inside the chosen node) and ends in success or in an error.
   Property C28: the i-th request goes to node i mod N whatever happened before. *)
EXTENDS Integers, Sequences, TLC
CONSTANTS N, MaxLen
Outcomes == {"ok", "notfound", "error", "retry_ok", "retry_error",
             "conn_error",   \* the HTTP library raises (connection refused, timeout): not an RpcError
             "bad_body"}     \* 5xx with a JSON body that is not an error list: pytezos raises AssertionError
VARIABLES next,   \* index of the node that receives the next request
          log     \* <<node, outcome>> per logical request
vars == <<next, log>>
Init == next = 0 /\ log = <<>>
RequestN(n, o) == /\ Len(log) < MaxLen
                  /\ log' = Append(log, <<next, o>>)
                  /\ next' = (next + 1) % n        \* for every outcome
Request(o) == RequestN(N, o)
Next == \E o \in Outcomes : Request(o)
Spec == Init /\ [][Next]_vars
RoundRobinN(n) == \A i \in DOMAIN log : log[i][1] = (i - 1) % n
RoundRobin == RoundRobinN(N)
NextInRange == next \in 0..N-1 /\ next = Len(log) % N
=============================================================================
