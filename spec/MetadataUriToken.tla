--------------------------- MODULE MetadataUriToken ---------------------------
(* TZIP-12 / TZIP-21 token metadata: ContractInterface.token_metadata[token_id]
   (src/pytezos/contract/interface.py: _get_token_metadata, _get_token_metadata_from_view,
   _get_token_metadata_from_storage; src/pytezos/contract/token_metadata.py) on top of the URI
   resolver of MetadataUri.  Growth of the specification (not a listed property).

   TZIP-12: the metadata of a token is the pair (token_id, token_info : map string bytes), found
   in the big_map %token_metadata of the storage or returned by the off-chain view
   `token_metadata` declared in the contract's TZIP-16 metadata.  token_info either carries the
   fields themselves ("name", "symbol", "decimals", ...) or, under the key "", a TZIP-16 URI of a
   JSON document with the fields.  Both sources describe the same ledger, so the answer must not
   depend on whether the contract declares the view.

   The steps of the code: ask the view (which needs the contract's metadata), fall back to the
   storage, follow the link with the URI resolver (the actions of MetadataUri, unchanged),
   validate the document.  The URI of the link is generated from an intent exactly as in
   MetadataUri; the documents live in the same simulated world. *)
EXTENDS MetadataUri

CONSTANT DocKey        \* the key of %metadata under which the contract's own TZIP-16 document lives (token links do not point there)
VARIABLES cm,          \* the contract's own metadata: "nometa" (no key "" in %metadata) | "noview" | "view" (declares token_metadata)
          entry        \* the token in the ledger: "nomap" (no %token_metadata in the storage) | "missing" | "link" | "direct"
tvars == <<cm, entry>>

Fields == <<"doc", <<"fields">>>>        \* the document made of the fields carried by token_info itself
TokenIntents == {i \in PlainMin \cup {<<"raw", t>> : t \in RawUris} \cup (IF MaxNest >= 1 THEN Sha({j \in PlainMin : j[1] = "web"}) ELSE {}) :
                   Target(i) # <<"bm", "self", DocKey>>}
Simple == <<"ts", <<>>, <<>>, <<47, 109>>, "min">>     \* tezos-storage:%2Fm, the link used where the link does not matter

TInit ==
  /\ devs \in DevChoices
  /\ \E i \in TokenIntents : intent = i /\ fault \in Faults(i)
  /\ layout = "top" /\ gw = <<"default", DefaultGateway>> /\ block = "head"
  /\ cm \in {"nometa", "noview", "view"} /\ entry \in {"nomap", "missing", "link", "direct"}
  /\ entry # "link" => (intent = Simple /\ fault = <<"none">>)
  /\ entry = "nomap" => cm # "view"
  /\ pc = "token-view" /\ Reset

FollowLink == url' = TextOf(intent) /\ cur' = url' /\ text' = url' /\ pc' = "scheme"

\* _get_token_metadata_from_view: the contract's metadata, its view `token_metadata`, run on the current storage
TokenFromView ==
  /\ pc = "token-view" /\ ~(cm = "nometa" /\ "TokenNoContractMetadata" \in devs)
  /\ IF cm # "view" \/ entry = "missing"            \* no view declared, or the view fails (FA2_TOKEN_UNDEFINED): try the storage
     THEN pc' = "token-storage" /\ UNCHANGED <<url, cur, text, result>>
     ELSE IF entry = "direct" THEN pc' = "done" /\ result' = Fields /\ UNCHANGED <<url, cur, text>>
     ELSE /\ "TokenViewLinkNotFollowed" \notin devs /\ FollowLink /\ UNCHANGED result
  /\ UNCHANGED <<world, round, scheme, auth, contract, key, dfor, pending, body, first, mark, io, taken, tvars>>
\* AS CODED (`cast(ContractMetadata, self.metadata).tokenMetadata`): a contract without TZIP-16 metadata makes the lookup crash
\* (AttributeError on None) before the storage is tried
TokenNoContractMetadataAsCoded ==
  /\ pc = "token-view" /\ cm = "nometa" /\ "TokenNoContractMetadata" \in devs
  /\ Fail("crash") /\ taken' = taken \cup {"TokenNoContractMetadata"}
  /\ UNCHANGED <<world, round, url, parse, first, mark, io, tvars>>
\* AS CODED (`ContractTokenMetadata.from_json(view result)`): a token_info that links to a document is validated as if it were the document
TokenViewLinkNotFollowedAsCoded ==
  /\ pc = "token-view" /\ cm = "view" /\ entry = "link" /\ "TokenViewLinkNotFollowed" \in devs
  /\ Fail("schema") /\ taken' = taken \cup {"TokenViewLinkNotFollowed"}
  /\ UNCHANGED <<world, round, url, parse, first, mark, io, tvars>>

\* _get_token_metadata_from_storage: storage['token_metadata'][token_id]['token_info']
TokenFromStorage ==
  /\ pc = "token-storage"
  /\ CASE entry \in {"nomap", "missing"} -> pc' = "done" /\ result' = <<"none">> /\ UNCHANGED <<url, cur, text, taken>>
       [] entry = "link" -> FollowLink /\ UNCHANGED <<result, taken>>
       [] entry = "direct" -> IF "TokenInfoDirectIgnored" \in devs
                              \* AS CODED (`...['token_info']['']` or nothing): fields carried by token_info itself are not returned
                              THEN pc' = "done" /\ result' = <<"none">> /\ taken' = taken \cup {"TokenInfoDirectIgnored"} /\ UNCHANGED <<url, cur, text>>
                              ELSE pc' = "done" /\ result' = Fields /\ UNCHANGED <<url, cur, text, taken>>
  /\ UNCHANGED <<world, round, scheme, auth, contract, key, dfor, pending, body, first, mark, io, tvars>>

TNext == TokenFromView \/ TokenNoContractMetadataAsCoded \/ TokenViewLinkNotFollowedAsCoded \/ TokenFromStorage
         \/ (pc \notin {"token-view", "token-storage"} /\ UriSteps /\ UNCHANGED tvars)
TSpec == TInit /\ [][TNext]_<<vars, tvars>>

\* ----------------------------------------------------------------- properties
\* what the ledger says about the token, whatever the route
TokenIntended == CASE entry \in {"nomap", "missing"} -> <<"none">>
                   [] entry = "direct" -> Fields
                   [] OTHER -> Intended
TokenResultIsIntended == Done /\ taken = {} => result = TokenIntended
TokenOnlyNamedDeviations == taken \subseteq devs /\ (Done /\ result # TokenIntended => taken # {})
\* the view and the storage describe the same ledger: declaring the view changes nothing (TokenIntended does not mention cm)
ViewAndStorageAgree == Done /\ taken = {} /\ cm # "nometa" => result = TokenIntended
TokenBounded == Len(lookups) <= 1 /\ Len(fetched) <= 1
TExport == (Done /\ devs = Replayed) => PrintT(<<"OUT", "TOK", KindOf(intent), fault, cm, entry, TextOf(intent), Target(intent), result, lookups, fetched, asked, taken, TokenIntended>>)
=============================================================================
