------------------------------ MODULE MichSem ------------------------------
(* Reference semantics of the Michelson core used by the interpreter properties
   (C01 C02 C03 C14 C17 C19 C20 C22): a static typing rule  Ty  and a big-step dynamic
   semantics  Run  over stacks of *typed slots* <<type, value>>.

   Types  (annotation free, tag-first tuples):
     <<"int">> <<"nat">> <<"mutez">> <<"timestamp">> <<"string">> <<"bytes">> <<"bool">> <<"unit">>
     <<"never">> <<"address">> <<"key_hash">> <<"key">> <<"signature">> <<"chain_id">> <<"operation">>
     <<"pair",a,b>> <<"option",a>> <<"or",a,b>> <<"list",a>> <<"set",a>> <<"map",k,v>> <<"big_map",k,v>>
     <<"lambda",a,b>> <<"ticket",a>> <<"contract",a>>
   Values:
     <<"i",n>>  numbers (int nat mutez timestamp)        <<"s",bytes>> string   <<"b",bytes>> bytes
     <<"bool",b>>  <<"unit">>  <<"p",x,y>>  <<"none">> <<"some",x>>  <<"l",x>> <<"r",x>>
     <<"list",seq>>  <<"set",sorted seq>>  <<"map",sorted seq of <<k,v>>>>  <<"lam",code>> <<"lamrec",code>>
     <<"a",bytes22,ep>> address (optimized bytes + entrypoint)   <<"o",bytes>> key_hash key signature chain_id
     <<"t",ticketer,content,amount>> ticket
   Instructions are tag-first tuples, bodies are sequences of instructions.
   Results of Run:  <<"ok", stack>>  |  <<"fail", slot>> (FAILWITH)  |  <<"err", <<kind>>>>. *)
EXTENDS Integers, Sequences, TLC

\* ===== helpers =====
Min2(a, b) == IF a < b THEN a ELSE b
Take(s, n) == SubSeq(s, 1, Min2(n, Len(s)))
Drop(s, n) == IF n >= Len(s) THEN <<>> ELSE SubSeq(s, n + 1, Len(s))
T(x) == x[1]
V(x) == x[2]
S(t, v) == <<t, v>>
TInt == <<"int">>  TNat == <<"nat">>  TBool == <<"bool">>  TStr == <<"string">>  TBytes == <<"bytes">>  TUnit == <<"unit">>
TMutez == <<"mutez">>  TTs == <<"timestamp">>  TAddr == <<"address">>  TOp == <<"operation">>
TPair(a, b) == <<"pair", a, b>>  TOpt(a) == <<"option", a>>  TOr(a, b) == <<"or", a, b>>  TList(a) == <<"list", a>>
TSet(a) == <<"set", a>>  TMap(k, v) == <<"map", k, v>>  TBigMap(k, v) == <<"big_map", k, v>>  TLam(a, b) == <<"lambda", a, b>>
TTicket(a) == <<"ticket", a>>
I(n) == <<"i", n>>  B(b) == <<"bool", b>>
IsNum(t) == t[1] \in {"int", "nat", "mutez", "timestamp"}
NativeMax == 32767
MutezMax == 2147483647   \* native instance: the real limit 2^63-1 is handled by the BigInt arithmetic family (C16)

\* ===== type predicates =====
RECURSIVE Comparable(_)
Comparable(t) ==
  CASE t[1] \in {"int", "nat", "mutez", "timestamp", "string", "bytes", "bool", "unit", "never", "address", "key_hash",
                 "key", "signature", "chain_id"} -> TRUE
    [] t[1] = "option" -> Comparable(t[2])
    [] t[1] \in {"pair", "or"} -> Comparable(t[2]) /\ Comparable(t[3])
    [] OTHER -> FALSE
RECURSIVE HasTicket(_)
HasTicket(t) ==
  CASE t[1] = "ticket" -> TRUE
    [] t[1] \in {"option", "list", "set"} -> HasTicket(t[2])
    [] t[1] \in {"pair", "or"} -> HasTicket(t[2]) \/ HasTicket(t[3])
    [] t[1] \in {"map", "big_map"} -> HasTicket(t[3])
    [] OTHER -> FALSE
Duplicable(t) == ~HasTicket(t)
RECURSIVE Pushable(_)
Pushable(t) ==
  CASE t[1] \in {"operation", "big_map", "ticket", "contract"} -> FALSE
    [] t[1] \in {"option", "list", "set"} -> Pushable(t[2])
    [] t[1] \in {"pair", "or"} -> Pushable(t[2]) /\ Pushable(t[3])
    [] t[1] = "map" -> Pushable(t[2]) /\ Pushable(t[3])
    [] OTHER -> TRUE

\* ===== comparison (C03) =====
RECURSIVE CmpBytes(_, _)
CmpBytes(a, b) == IF a = <<>> THEN (IF b = <<>> THEN 0 ELSE -1) ELSE IF b = <<>> THEN 1
                  ELSE IF Head(a) < Head(b) THEN -1 ELSE IF Head(a) > Head(b) THEN 1 ELSE CmpBytes(Tail(a), Tail(b))
RECURSIVE Cmp(_, _, _)
Cmp(t, a, b) ==
  CASE IsNum(t) -> IF a[2] < b[2] THEN -1 ELSE IF a[2] > b[2] THEN 1 ELSE 0
    [] t[1] \in {"string", "bytes", "key_hash", "key", "signature", "chain_id"} -> CmpBytes(a[2], b[2])
    [] t[1] = "address" -> LET c == CmpBytes(a[2], b[2]) IN IF c # 0 THEN c ELSE CmpBytes(a[3], b[3])
    [] t[1] = "bool" -> IF a[2] = b[2] THEN 0 ELSE IF b[2] THEN -1 ELSE 1
    [] t[1] \in {"unit", "never"} -> 0
    [] t[1] = "pair" -> LET c == Cmp(t[2], a[2], b[2]) IN IF c # 0 THEN c ELSE Cmp(t[3], a[3], b[3])
    [] t[1] = "option" -> IF a[1] = "none" THEN (IF b[1] = "none" THEN 0 ELSE -1)
                          ELSE IF b[1] = "none" THEN 1 ELSE Cmp(t[2], a[2], b[2])
    [] t[1] = "or" -> IF a[1] = "l" THEN (IF b[1] = "l" THEN Cmp(t[2], a[2], b[2]) ELSE -1)
                      ELSE IF b[1] = "l" THEN 1 ELSE Cmp(t[3], a[2], b[2])

\* ===== sorted collections (C14) =====
RECURSIVE SetMem(_, _, _)
SetMem(t, s, x) == IF s = <<>> THEN FALSE ELSE IF Cmp(t, Head(s), x) = 0 THEN TRUE ELSE SetMem(t, Tail(s), x)
RECURSIVE SetIns(_, _, _)
SetIns(t, s, x) == IF s = <<>> THEN <<x>>
                   ELSE LET c == Cmp(t, x, Head(s)) IN
                        IF c = 0 THEN s ELSE IF c < 0 THEN <<x>> \o s ELSE <<Head(s)>> \o SetIns(t, Tail(s), x)
RECURSIVE SetDel(_, _, _)
SetDel(t, s, x) == IF s = <<>> THEN <<>> ELSE IF Cmp(t, Head(s), x) = 0 THEN Tail(s) ELSE <<Head(s)>> \o SetDel(t, Tail(s), x)
RECURSIVE MapGet(_, _, _)
MapGet(t, m, k) == IF m = <<>> THEN <<"none">> ELSE IF Cmp(t, Head(m)[1], k) = 0 THEN <<"some", Head(m)[2]>> ELSE MapGet(t, Tail(m), k)
RECURSIVE MapPut(_, _, _, _)
MapPut(t, m, k, v) == IF m = <<>> THEN <<<<k, v>>>>
                      ELSE LET c == Cmp(t, k, Head(m)[1]) IN
                           IF c = 0 THEN <<<<k, v>>>> \o Tail(m) ELSE IF c < 0 THEN <<<<k, v>>>> \o m ELSE <<Head(m)>> \o MapPut(t, Tail(m), k, v)
RECURSIVE MapDel(_, _, _)
MapDel(t, m, k) == IF m = <<>> THEN <<>> ELSE IF Cmp(t, Head(m)[1], k) = 0 THEN Tail(m) ELSE <<Head(m)>> \o MapDel(t, Tail(m), k)
StrictlySorted(t, keys) == \A k \in 1..Len(keys) - 1 : Cmp(t, keys[k], keys[k + 1]) = -1

\* ===== well-formed values: HasType (C02) =====
RECURSIVE HasType(_, _), Ty(_, _), TyS(_, _)
HasType(v, t) ==
  CASE t[1] = "int" \/ t[1] = "timestamp" -> v[1] = "i"
    [] t[1] = "nat" \/ t[1] = "mutez" -> v[1] = "i" /\ v[2] >= 0
    [] t[1] = "string" -> v[1] = "s"
    [] t[1] = "bytes" -> v[1] = "b" \/ v[1] = "h"
    [] t[1] = "bool" -> v[1] = "bool"
    [] t[1] = "unit" -> v = <<"unit">>
    [] t[1] = "never" -> FALSE
    [] t[1] = "address" -> v[1] = "a"
    [] t[1] \in {"key_hash", "key", "signature", "chain_id"} -> v[1] = "o"
    [] t[1] = "pair" -> v[1] = "p" /\ HasType(v[2], t[2]) /\ HasType(v[3], t[3])
    [] t[1] = "option" -> v = <<"none">> \/ (v[1] = "some" /\ HasType(v[2], t[2]))
    [] t[1] = "or" -> (v[1] = "l" /\ HasType(v[2], t[2])) \/ (v[1] = "r" /\ HasType(v[2], t[3]))
    [] t[1] = "list" -> v[1] = "list" /\ \A k \in DOMAIN v[2] : HasType(v[2][k], t[2])
    [] t[1] = "set" -> v[1] = "set" /\ (\A k \in DOMAIN v[2] : HasType(v[2][k], t[2])) /\ StrictlySorted(t[2], v[2])
    [] t[1] \in {"map", "big_map"} -> /\ v[1] = "map"
                                      /\ \A k \in DOMAIN v[2] : HasType(v[2][k][1], t[2]) /\ HasType(v[2][k][2], t[3])
                                      /\ StrictlySorted(t[2], [k \in DOMAIN v[2] |-> v[2][k][1]])
    [] t[1] = "lambda" -> \* a lambda value is its code, which must have the declared type
                          /\ v[1] \in {"lam", "lamrec"}
                          /\ LET r == TyS(v[2], IF v[1] = "lam" THEN <<t[2]>> ELSE <<t[2], t>>) IN r = <<t[3]>> \/ r = << <<"#failed">> >>
    [] t[1] = "ticket" -> v[1] = "t" /\ v[4] > 0 /\ HasType(v[3], t[2])
    [] OTHER -> TRUE

\* ===== arithmetic typing =====
AddT(a, b) == CASE a = TNat /\ b = TNat -> TNat [] a = TMutez /\ b = TMutez -> TMutez
                [] (a = TTs /\ b = TInt) \/ (a = TInt /\ b = TTs) -> TTs
                [] a \in {TInt, TNat} /\ b \in {TInt, TNat} -> TInt [] OTHER -> <<"#ill">>
SubT(a, b) == CASE a = TTs /\ b = TInt -> TTs [] a = TTs /\ b = TTs -> TInt [] a = TMutez /\ b = TMutez -> TMutez
                [] a \in {TInt, TNat} /\ b \in {TInt, TNat} -> TInt [] OTHER -> <<"#ill">>
MulT(a, b) == CASE a = TNat /\ b = TNat -> TNat [] (a = TMutez /\ b = TNat) \/ (a = TNat /\ b = TMutez) -> TMutez
                [] a \in {TInt, TNat} /\ b \in {TInt, TNat} -> TInt [] OTHER -> <<"#ill">>
EDivQT(a, b) == CASE a = TNat /\ b = TNat -> TNat [] a = TMutez /\ b = TNat -> TMutez [] a = TMutez /\ b = TMutez -> TNat
                  [] a \in {TInt, TNat} /\ b \in {TInt, TNat} -> TInt [] OTHER -> <<"#ill">>
EDivRT(a, b) == IF a = TMutez THEN TMutez ELSE TNat
Abs(n) == IF n < 0 THEN -n ELSE n
EDivMod(a, b) == LET ab == Abs(b)  r == a % ab  q == (a - r) \div b IN <<q, r>>     \* 0 <= r < |b|, a = q*b + r
RECURSIVE Pow2(_)
Pow2(k) == IF k = 0 THEN 1 ELSE 2 * Pow2(k - 1)
RECURSIVE BitOp(_, _, _)
BitOp(op, a, b) == IF a = 0 /\ b = 0 THEN 0
  ELSE LET x == a % 2 y == b % 2
           z == CASE op = "and" -> IF x = 1 /\ y = 1 THEN 1 ELSE 0
                  [] op = "or" -> IF x = 1 \/ y = 1 THEN 1 ELSE 0
                  [] op = "xor" -> IF x # y THEN 1 ELSE 0
           r == BitOp(op, a \div 2, b \div 2)
       IN z + 2 * r

\* ===== right combs =====
RECURSIVE CombT(_)
CombT(ts) == IF Len(ts) = 2 THEN TPair(ts[1], ts[2]) ELSE TPair(ts[1], CombT(Tail(ts)))
RECURSIVE UnCombT(_, _)    \* <<>> when the type is not a comb of n
UnCombT(t, n) == IF n = 1 THEN <<t>>
                 ELSE IF t[1] # "pair" THEN <<>>
                 ELSE LET r == UnCombT(t[3], n - 1) IN IF r = <<>> THEN <<>> ELSE <<t[2]>> \o r
RECURSIVE GetNT(_, _)      \* <<"#ill">> when out of range
GetNT(t, n) == IF n = 0 THEN t ELSE IF t[1] # "pair" THEN <<"#ill">> ELSE IF n = 1 THEN t[2] ELSE GetNT(t[3], n - 2)
RECURSIVE UpdNT(_, _, _)
UpdNT(t, n, e) == IF n = 0 THEN e ELSE IF t[1] # "pair" THEN <<"#ill">>
                  ELSE IF n = 1 THEN TPair(e, t[3])
                  ELSE LET r == UpdNT(t[3], n - 2, e) IN IF r = <<"#ill">> THEN r ELSE TPair(t[2], r)
RECURSIVE MkComb(_)
MkComb(xs) == IF Len(xs) = 2 THEN S(TPair(T(xs[1]), T(xs[2])), <<"p", V(xs[1]), V(xs[2])>>)
              ELSE LET r == MkComb(Tail(xs)) IN S(TPair(T(xs[1]), T(r)), <<"p", V(xs[1]), V(r)>>)
RECURSIVE UnComb(_, _)
UnComb(x, n) == IF n = 1 THEN <<x>> ELSE <<S(T(x)[2], V(x)[2])>> \o UnComb(S(T(x)[3], V(x)[3]), n - 1)
RECURSIVE GetN(_, _)
GetN(x, n) == IF n = 0 THEN x ELSE IF n = 1 THEN S(T(x)[2], V(x)[2]) ELSE GetN(S(T(x)[3], V(x)[3]), n - 2)
RECURSIVE UpdN(_, _, _)
UpdN(x, n, e) == IF n = 0 THEN e
                 ELSE IF n = 1 THEN S(TPair(T(e), T(x)[3]), <<"p", V(e), V(x)[3]>>)
                 ELSE LET r == UpdN(S(T(x)[3], V(x)[3]), n - 2, e) IN S(TPair(T(x)[2], T(r)), <<"p", V(x)[2], V(r)>>)
RECURSIVE ConcatAll(_)
ConcatAll(xs) == IF xs = <<>> THEN <<>> ELSE Head(xs)[2] \o ConcatAll(Tail(xs))

\* ==========================================================================
\* static typing:  Ty(i, ts)  = type stack after i, or Failed (all paths FAILWITH), or Ill
\* ==========================================================================
Ill == << <<"#ill">> >>
Failed == << <<"#failed">> >>
IsIll(ts) == ts = Ill
IsFailed(ts) == ts = Failed
Join(x, y) == IF IsIll(x) \/ IsIll(y) THEN Ill ELSE IF IsFailed(x) THEN y ELSE IF IsFailed(y) THEN x ELSE IF x = y THEN x ELSE Ill
EnvInstrType(op) ==
  CASE op \in {"AMOUNT", "BALANCE"} -> TMutez
    [] op \in {"SENDER", "SOURCE", "SELF_ADDRESS"} -> TAddr
    [] op = "NOW" -> TTs
    [] op \in {"LEVEL", "TOTAL_VOTING_POWER", "MIN_BLOCK_TIME"} -> TNat
    [] op = "CHAIN_ID" -> <<"chain_id">>
EnvInstrs == {"AMOUNT", "BALANCE", "SENDER", "SOURCE", "SELF_ADDRESS", "NOW", "LEVEL", "TOTAL_VOTING_POWER", "MIN_BLOCK_TIME", "CHAIN_ID"}
HashInstrs == {"BLAKE2B", "SHA256", "SHA512", "SHA3", "KECCAK"}

TyS(code, ts) ==
  IF IsIll(ts) THEN Ill
  ELSE IF code = <<>> THEN ts
  ELSE IF IsFailed(ts) THEN Ill                       \* FAILWITH must be in tail position
  ELSE LET r == Ty(Head(code), ts) IN TyS(Tail(code), r)
Ty(i, ts) ==
  LET op == i[1]
      n == Len(ts)
      a == ts[1]  b == ts[2]  c == ts[3]
      r1 == Drop(ts, 1)  r2 == Drop(ts, 2)  r3 == Drop(ts, 3)
      Push(t, rest) == <<t>> \o rest
  IN
  CASE op = "PUSH" -> IF Pushable(i[2]) /\ HasType(i[3], i[2]) THEN Push(i[2], ts) ELSE Ill
    [] op = "DROP" -> IF n >= i[2] THEN Drop(ts, i[2]) ELSE Ill
    [] op = "DUP" -> IF i[2] >= 1 /\ n >= i[2] /\ Duplicable(ts[i[2]]) THEN Push(ts[i[2]], ts) ELSE Ill
    [] op = "SWAP" -> IF n >= 2 THEN <<b, a>> \o r2 ELSE Ill
    [] op = "DIG" -> IF n >= i[2] + 1 THEN <<ts[i[2] + 1]>> \o Take(ts, i[2]) \o Drop(ts, i[2] + 1) ELSE Ill
    [] op = "DUG" -> IF n >= i[2] + 1 THEN SubSeq(ts, 2, i[2] + 1) \o <<a>> \o Drop(ts, i[2] + 1) ELSE Ill
    [] op = "DIP" -> IF n < i[2] THEN Ill
                     ELSE LET r == TyS(i[3], Drop(ts, i[2])) IN
                          IF IsIll(r) THEN Ill ELSE IF IsFailed(r) THEN Failed ELSE Take(ts, i[2]) \o r
    [] op \in {"RENAME"} -> IF n >= 1 THEN ts ELSE Ill
    [] op = "CAST" -> IF n >= 1 /\ a = i[2] THEN ts ELSE Ill
    [] op = "UNIT" -> Push(TUnit, ts)
    [] op = "PAIR" -> IF i[2] >= 2 /\ n >= i[2] THEN Push(CombT(Take(ts, i[2])), Drop(ts, i[2])) ELSE Ill
    [] op = "UNPAIR" -> IF i[2] >= 2 /\ n >= 1 /\ UnCombT(a, i[2]) # <<>> THEN UnCombT(a, i[2]) \o r1 ELSE Ill
    [] op = "CAR" -> IF n >= 1 /\ a[1] = "pair" THEN Push(a[2], r1) ELSE Ill
    [] op = "CDR" -> IF n >= 1 /\ a[1] = "pair" THEN Push(a[3], r1) ELSE Ill
    [] op = "GET" -> IF n >= 1 /\ GetNT(a, i[2]) # <<"#ill">> THEN Push(GetNT(a, i[2]), r1) ELSE Ill
    [] op = "UPDATE" -> IF n >= 2 /\ UpdNT(b, i[2], a) # <<"#ill">> THEN Push(UpdNT(b, i[2], a), r2) ELSE Ill
    [] op = "LEFT" -> IF n >= 1 THEN Push(TOr(a, i[2]), r1) ELSE Ill
    [] op = "RIGHT" -> IF n >= 1 THEN Push(TOr(i[2], a), r1) ELSE Ill
    [] op = "SOME" -> IF n >= 1 THEN Push(TOpt(a), r1) ELSE Ill
    [] op = "NONE" -> Push(TOpt(i[2]), ts)
    [] op = "NIL" -> Push(TList(i[2]), ts)
    [] op = "CONS" -> IF n >= 2 /\ b = TList(a) THEN r1 ELSE Ill
    [] op = "EMPTY_SET" -> IF Comparable(i[2]) THEN Push(TSet(i[2]), ts) ELSE Ill
    [] op = "EMPTY_MAP" -> IF Comparable(i[2]) THEN Push(TMap(i[2], i[3]), ts) ELSE Ill
    [] op = "EMPTY_BIG_MAP" -> IF Comparable(i[2]) THEN Push(TBigMap(i[2], i[3]), ts) ELSE Ill
    [] op = "IF" -> IF n >= 1 /\ a = TBool THEN Join(TyS(i[2], r1), TyS(i[3], r1)) ELSE Ill
    [] op = "IF_NONE" -> IF n >= 1 /\ a[1] = "option" THEN Join(TyS(i[2], r1), TyS(i[3], Push(a[2], r1))) ELSE Ill
    [] op = "IF_LEFT" -> IF n >= 1 /\ a[1] = "or" THEN Join(TyS(i[2], Push(a[2], r1)), TyS(i[3], Push(a[3], r1))) ELSE Ill
    [] op = "IF_CONS" -> IF n >= 1 /\ a[1] = "list" THEN Join(TyS(i[2], <<a[2], a>> \o r1), TyS(i[3], r1)) ELSE Ill
    [] op = "LOOP" -> IF n >= 1 /\ a = TBool
                      THEN LET r == TyS(i[2], r1) IN IF IsFailed(r) \/ r = ts THEN r1 ELSE Ill
                      ELSE Ill
    [] op = "LOOP_LEFT" -> IF n >= 1 /\ a[1] = "or"
                           THEN LET r == TyS(i[2], Push(a[2], r1)) IN IF IsFailed(r) \/ r = ts THEN Push(a[3], r1) ELSE Ill
                           ELSE Ill
    [] op = "MAP" -> IF n >= 1 /\ a[1] \in {"list", "map"}
                     THEN LET et == IF a[1] = "list" THEN a[2] ELSE TPair(a[2], a[3])
                              r == TyS(i[2], Push(et, r1)) IN
                          IF IsIll(r) \/ IsFailed(r) THEN r
                          ELSE IF Len(r) >= 1 /\ Tail(r) = r1
                               THEN Push(IF a[1] = "list" THEN TList(r[1]) ELSE TMap(a[2], r[1]), r1) ELSE Ill
                     ELSE Ill
    [] op = "ITER" -> IF n >= 1 /\ a[1] \in {"list", "set", "map"}
                      THEN LET et == IF a[1] = "map" THEN TPair(a[2], a[3]) ELSE a[2]
                               r == TyS(i[2], Push(et, r1)) IN
                           IF IsFailed(r) \/ r = r1 THEN r1 ELSE Ill
                      ELSE Ill
    [] op = "FAILWITH" -> IF n >= 1 THEN Failed ELSE Ill
    [] op = "NEVER" -> IF n >= 1 /\ a = <<"never">> THEN Failed ELSE Ill
    [] op = "LAMBDA" -> LET r == TyS(i[4], <<i[2]>>) IN IF IsFailed(r) \/ r = <<i[3]>> THEN Push(TLam(i[2], i[3]), ts) ELSE Ill
    [] op = "LAMBDA_REC" -> LET r == TyS(i[4], <<i[2], TLam(i[2], i[3])>>) IN
                            IF IsFailed(r) \/ r = <<i[3]>> THEN Push(TLam(i[2], i[3]), ts) ELSE Ill
    [] op = "EXEC" -> IF n >= 2 /\ b[1] = "lambda" /\ b[2] = a THEN Push(b[3], r2) ELSE Ill
    [] op = "APPLY" -> IF n >= 2 /\ b[1] = "lambda" /\ b[2][1] = "pair" /\ b[2][2] = a /\ Pushable(a)
                       THEN Push(TLam(b[2][3], b[3]), r2) ELSE Ill
    [] op = "COMPARE" -> IF n >= 2 /\ a = b /\ Comparable(a) THEN Push(TInt, r2) ELSE Ill
    [] op \in {"EQ", "NEQ", "LT", "GT", "LE", "GE"} -> IF n >= 1 /\ a = TInt THEN Push(TBool, r1) ELSE Ill
    [] op = "ADD" -> IF n >= 2 /\ AddT(a, b) # <<"#ill">> THEN Push(AddT(a, b), r2) ELSE Ill
    [] op = "SUB" -> IF n >= 2 /\ SubT(a, b) # <<"#ill">> THEN Push(SubT(a, b), r2) ELSE Ill      \* SUB on mutez: legacy, fails on underflow
    [] op = "SUB_MUTEZ" -> IF n >= 2 /\ a = TMutez /\ b = TMutez THEN Push(TOpt(TMutez), r2) ELSE Ill
    [] op = "MUL" -> IF n >= 2 /\ MulT(a, b) # <<"#ill">> THEN Push(MulT(a, b), r2) ELSE Ill
    [] op = "EDIV" -> IF n >= 2 /\ EDivQT(a, b) # <<"#ill">> THEN Push(TOpt(TPair(EDivQT(a, b), EDivRT(a, b))), r2) ELSE Ill
    [] op = "NEG" -> IF n >= 1 /\ a \in {TInt, TNat} THEN Push(TInt, r1) ELSE Ill
    [] op = "ABS" -> IF n >= 1 /\ a = TInt THEN Push(TNat, r1) ELSE Ill
    [] op = "INT" -> IF n >= 1 /\ a = TNat THEN Push(TInt, r1) ELSE Ill
    [] op = "ISNAT" -> IF n >= 1 /\ a = TInt THEN Push(TOpt(TNat), r1) ELSE Ill
    [] op \in {"LSL", "LSR"} -> IF n >= 2 /\ a = TNat /\ b = TNat THEN Push(TNat, r2) ELSE Ill
    [] op \in {"OR", "XOR"} -> IF n >= 2 /\ a = b /\ a \in {TBool, TNat} THEN Push(a, r2) ELSE Ill
    [] op = "AND" -> IF n >= 2 /\ ((a = b /\ a \in {TBool, TNat}) \/ (a = TInt /\ b = TNat)) THEN Push(IF a = TBool THEN TBool ELSE TNat, r2) ELSE Ill
    [] op = "NOT" -> IF n >= 1 /\ a \in {TBool, TNat, TInt} THEN Push(IF a = TBool THEN TBool ELSE TInt, r1) ELSE Ill
    [] op = "SIZE" -> IF n >= 1 /\ a[1] \in {"string", "bytes", "list", "set", "map"} THEN Push(TNat, r1) ELSE Ill
    [] op = "CONCAT" -> IF n >= 1 /\ a[1] = "list" /\ a[2] \in {TStr, TBytes} THEN Push(a[2], r1)
                        ELSE IF n >= 2 /\ a = b /\ a \in {TStr, TBytes} THEN Push(a, r2) ELSE Ill
    [] op = "SLICE" -> IF n >= 3 /\ a = TNat /\ b = TNat /\ c \in {TStr, TBytes} THEN Push(TOpt(c), r3) ELSE Ill
    [] op = "MEM" -> IF n >= 2 /\ ((b[1] = "set" /\ b[2] = a) \/ (b[1] \in {"map", "big_map"} /\ b[2] = a)) THEN Push(TBool, r2) ELSE Ill
    [] op = "GETK" -> IF n >= 2 /\ b[1] \in {"map", "big_map"} /\ b[2] = a THEN Push(TOpt(b[3]), r2) ELSE Ill
    [] op = "UPDATEK" -> IF n >= 3 /\ ((c[1] = "set" /\ c[2] = a /\ b = TBool) \/ (c[1] \in {"map", "big_map"} /\ c[2] = a /\ b = TOpt(c[3])))
                         THEN r2 ELSE Ill
    [] op = "GET_AND_UPDATE" -> IF n >= 3 /\ c[1] \in {"map", "big_map"} /\ c[2] = a /\ b = TOpt(c[3]) THEN r1 ELSE Ill
    [] op \in EnvInstrs -> Push(EnvInstrType(op), ts)
    [] op \in HashInstrs -> IF n >= 1 /\ a = TBytes THEN ts ELSE Ill
    [] op = "TICKET" -> IF n >= 2 /\ Comparable(a) /\ b = TNat THEN Push(TOpt(TTicket(a)), r2) ELSE Ill
    [] op = "READ_TICKET" -> IF n >= 1 /\ a[1] = "ticket" THEN Push(TPair(TAddr, TPair(a[2], TNat)), ts) ELSE Ill
    [] op = "SPLIT_TICKET" -> IF n >= 2 /\ a[1] = "ticket" /\ b = TPair(TNat, TNat) THEN Push(TOpt(TPair(a, a)), r2) ELSE Ill
    [] op = "JOIN_TICKETS" -> IF n >= 1 /\ a[1] = "pair" /\ a[2] = a[3] /\ a[2][1] = "ticket" THEN Push(TOpt(a[2]), r1) ELSE Ill
    [] op = "SEQ" -> TyS(i[2], ts)
    [] OTHER -> Ill

\* ==========================================================================
\* dynamic semantics:  Run(i, st, e, f)   (e = environment record, f = loop fuel)
\* ==========================================================================
Ok(st) == <<"ok", st>>
Err(k) == <<"err", <<k>>>>
SymHash(alg, v) == <<"h", alg, v>>       \* uninterpreted digest of the bytes value v (interpreted by the harness)
DigestLen(alg) == IF alg = "SHA512" THEN 64 ELSE 32
IsSym(v) == v[1] = "h"
RECURSIVE Run(_, _, _, _), RunSeq(_, _, _, _), MapL(_, _, _, _, _, _), IterL(_, _, _, _, _), MapM(_, _, _, _, _, _, _),
          LoopB(_, _, _, _), LoopL(_, _, _, _)
RunSeq(code, st, e, f) ==
  IF code = <<>> THEN Ok(st)
  ELSE LET r == Run(Head(code), st, e, f) IN IF r[1] # "ok" THEN r ELSE RunSeq(Tail(code), r[2], e, f)
MapL(body, et, elems, rest, e, f) ==         \* -> <<"ok", new values, rest>>
  IF elems = <<>> THEN <<"ok", <<>>, rest>>
  ELSE LET r == RunSeq(body, <<S(et, Head(elems))>> \o rest, e, f) IN
       IF r[1] # "ok" THEN r
       ELSE LET t == MapL(body, et, Tail(elems), Tail(r[2]), e, f) IN
            IF t[1] # "ok" THEN t ELSE <<"ok", <<V(r[2][1])>> \o t[2], t[3]>>
MapM(body, kt, vt, ents, rest, e, f) ==
  IF ents = <<>> THEN <<"ok", <<>>, rest>>
  ELSE LET en == Head(ents)
           r == RunSeq(body, <<S(TPair(kt, vt), <<"p", en[1], en[2]>>)>> \o rest, e, f) IN
       IF r[1] # "ok" THEN r
       ELSE LET t == MapM(body, kt, vt, Tail(ents), Tail(r[2]), e, f) IN
            IF t[1] # "ok" THEN t ELSE <<"ok", <<<<en[1], V(r[2][1])>>>> \o t[2], t[3]>>
IterL(body, slots, rest, e, f) ==
  IF slots = <<>> THEN Ok(rest)
  ELSE LET r == RunSeq(body, <<Head(slots)>> \o rest, e, f) IN IF r[1] # "ok" THEN r ELSE IterL(body, Tail(slots), r[2], e, f)
LoopB(body, st, e, f) ==
  IF f = 0 THEN Err("fuel") ELSE
  IF V(st[1])[2] THEN LET r == RunSeq(body, Tail(st), e, f) IN IF r[1] # "ok" THEN r ELSE LoopB(body, r[2], e, f - 1)
  ELSE Ok(Tail(st))
LoopL(body, st, e, f) ==
  IF f = 0 THEN Err("fuel") ELSE
  LET x == st[1] IN
  IF V(x)[1] = "l" THEN LET r == RunSeq(body, <<S(T(x)[2], V(x)[2])>> \o Tail(st), e, f) IN IF r[1] # "ok" THEN r ELSE LoopL(body, r[2], e, f - 1)
  ELSE Ok(<<S(T(x)[3], V(x)[2])>> \o Tail(st))

TypesOf(st) == [k \in DOMAIN st |-> T(st[k])]
Run(i, st, e, f) ==
  LET op == i[1]
      a == st[1]  b == st[2]  c == st[3]
      r1 == Drop(st, 1) r2 == Drop(st, 2) r3 == Drop(st, 3) IN
  CASE op \in {"ADD", "SUB", "MUL", "LSL"} /\ (Abs(V(a)[2]) > NativeMax \/ Abs(V(b)[2]) > NativeMax \/ (op = "LSL" /\ V(b)[2] > 14 /\ V(b)[2] <= 256))
         -> Err("native")       \* outside the range of this native-integer instance (big integers: BigInt family, C16)
    [] op \in {"CONCAT", "SLICE", "COMPARE"} /\ (\E k \in 1..Min2(3, Len(st)) : IsSym(V(st[k])))
         -> Err("symbolic")     \* digests are uninterpreted: their bytes cannot be inspected in the model
    [] op = "PUSH" -> Ok(<<S(i[2], i[3])>> \o st)
    [] op = "DROP" -> Ok(Drop(st, i[2]))
    [] op = "DUP" -> Ok(<<st[i[2]]>> \o st)
    [] op = "SWAP" -> Ok(<<b, a>> \o r2)
    [] op = "DIG" -> Ok(<<st[i[2] + 1]>> \o Take(st, i[2]) \o Drop(st, i[2] + 1))
    [] op = "DUG" -> Ok(SubSeq(st, 2, i[2] + 1) \o <<a>> \o Drop(st, i[2] + 1))
    [] op = "DIP" -> LET r == RunSeq(i[3], Drop(st, i[2]), e, f) IN IF r[1] # "ok" THEN r ELSE Ok(Take(st, i[2]) \o r[2])
    [] op \in {"RENAME", "CAST"} -> Ok(st)
    [] op = "UNIT" -> Ok(<<S(TUnit, <<"unit">>)>> \o st)
    [] op = "PAIR" -> Ok(<<MkComb(Take(st, i[2]))>> \o Drop(st, i[2]))
    [] op = "UNPAIR" -> Ok(UnComb(a, i[2]) \o r1)
    [] op = "CAR" -> Ok(<<S(T(a)[2], V(a)[2])>> \o r1)
    [] op = "CDR" -> Ok(<<S(T(a)[3], V(a)[3])>> \o r1)
    [] op = "GET" -> Ok(<<GetN(a, i[2])>> \o r1)
    [] op = "UPDATE" -> Ok(<<UpdN(b, i[2], a)>> \o r2)
    [] op = "LEFT" -> Ok(<<S(TOr(T(a), i[2]), <<"l", V(a)>>)>> \o r1)
    [] op = "RIGHT" -> Ok(<<S(TOr(i[2], T(a)), <<"r", V(a)>>)>> \o r1)
    [] op = "SOME" -> Ok(<<S(TOpt(T(a)), <<"some", V(a)>>)>> \o r1)
    [] op = "NONE" -> Ok(<<S(TOpt(i[2]), <<"none">>)>> \o st)
    [] op = "NIL" -> Ok(<<S(TList(i[2]), <<"list", <<>>>>)>> \o st)
    [] op = "CONS" -> Ok(<<S(T(b), <<"list", <<V(a)>> \o V(b)[2]>>)>> \o r2)
    [] op = "EMPTY_SET" -> Ok(<<S(TSet(i[2]), <<"set", <<>>>>)>> \o st)
    [] op = "EMPTY_MAP" -> Ok(<<S(TMap(i[2], i[3]), <<"map", <<>>>>)>> \o st)
    [] op = "EMPTY_BIG_MAP" -> Ok(<<S(TBigMap(i[2], i[3]), <<"map", <<>>>>)>> \o st)
    [] op = "IF" -> IF V(a)[2] THEN RunSeq(i[2], r1, e, f) ELSE RunSeq(i[3], r1, e, f)
    [] op = "IF_NONE" -> IF V(a)[1] = "none" THEN RunSeq(i[2], r1, e, f) ELSE RunSeq(i[3], <<S(T(a)[2], V(a)[2])>> \o r1, e, f)
    [] op = "IF_LEFT" -> IF V(a)[1] = "l" THEN RunSeq(i[2], <<S(T(a)[2], V(a)[2])>> \o r1, e, f) ELSE RunSeq(i[3], <<S(T(a)[3], V(a)[2])>> \o r1, e, f)
    [] op = "IF_CONS" -> IF V(a)[2] = <<>> THEN RunSeq(i[3], r1, e, f)
                         ELSE RunSeq(i[2], <<S(T(a)[2], Head(V(a)[2])), S(T(a), <<"list", Tail(V(a)[2])>>)>> \o r1, e, f)
    [] op = "LOOP" -> LoopB(i[2], st, e, f)
    [] op = "LOOP_LEFT" -> LoopL(i[2], st, e, f)
    [] op = "MAP" ->
         \* the result element type is the *static* one (matters for empty collections, C02)
         LET tr == Ty(i, TypesOf(st)) IN
         IF T(a)[1] = "list"
         THEN LET r == MapL(i[2], T(a)[2], V(a)[2], r1, e, f) IN IF r[1] # "ok" THEN r ELSE Ok(<<S(tr[1], <<"list", r[2]>>)>> \o r[3])
         ELSE LET r == MapM(i[2], T(a)[2], T(a)[3], V(a)[2], r1, e, f) IN IF r[1] # "ok" THEN r ELSE Ok(<<S(tr[1], <<"map", r[2]>>)>> \o r[3])
    [] op = "ITER" -> (CASE T(a)[1] \in {"list", "set"} -> IterL(i[2], [k \in DOMAIN V(a)[2] |-> S(T(a)[2], V(a)[2][k])], r1, e, f)
                        [] T(a)[1] = "map" -> IterL(i[2], [k \in DOMAIN V(a)[2] |-> S(TPair(T(a)[2], T(a)[3]), <<"p", V(a)[2][k][1], V(a)[2][k][2]>>)], r1, e, f))
    [] op = "FAILWITH" -> <<"fail", a>>
    [] op = "NEVER" -> Err("never")
    [] op = "LAMBDA" -> Ok(<<S(TLam(i[2], i[3]), <<"lam", i[4]>>)>> \o st)
    [] op = "LAMBDA_REC" -> Ok(<<S(TLam(i[2], i[3]), <<"lamrec", i[4]>>)>> \o st)
    [] op = "EXEC" ->
         IF f = 0 THEN Err("fuel") ELSE
         LET r == IF V(b)[1] = "lam" THEN RunSeq(V(b)[2], <<a>>, e, f - 1)
                  ELSE RunSeq(V(b)[2], <<a, b>>, e, f - 1) IN       \* LAMBDA_REC: argument on top, the lambda itself below
         IF r[1] # "ok" THEN r ELSE Ok(<<r[2][1]>> \o r2)
    [] op = "APPLY" ->
         LET pre == << <<"PUSH", T(a), V(a)>>, <<"PAIR", 2>> >>
             nt == TLam(T(b)[2][3], T(b)[3]) IN
         IF V(b)[1] = "lam" THEN Ok(<<S(nt, <<"lam", pre \o << <<"SEQ", V(b)[2]>> >> >>)>> \o r2)
         ELSE Ok(<<S(nt, <<"lam", pre \o << <<"LAMBDA_REC", T(b)[2], T(b)[3], V(b)[2]>>, <<"SWAP">>, <<"EXEC">> >> >>)>> \o r2)
    [] op = "COMPARE" -> Ok(<<S(TInt, I(Cmp(T(a), V(a), V(b))))>> \o r2)
    [] op = "EQ" -> Ok(<<S(TBool, B(V(a)[2] = 0))>> \o r1)
    [] op = "NEQ" -> Ok(<<S(TBool, B(V(a)[2] # 0))>> \o r1)
    [] op = "LT" -> Ok(<<S(TBool, B(V(a)[2] < 0))>> \o r1)
    [] op = "GT" -> Ok(<<S(TBool, B(V(a)[2] > 0))>> \o r1)
    [] op = "LE" -> Ok(<<S(TBool, B(V(a)[2] <= 0))>> \o r1)
    [] op = "GE" -> Ok(<<S(TBool, B(V(a)[2] >= 0))>> \o r1)
    [] op = "ADD" -> IF AddT(T(a), T(b)) = TMutez /\ V(a)[2] + V(b)[2] > MutezMax THEN Err("overflow")
                     ELSE Ok(<<S(AddT(T(a), T(b)), I(V(a)[2] + V(b)[2]))>> \o r2)
    [] op = "SUB" -> IF T(a) = TMutez /\ V(a)[2] < V(b)[2] THEN Err("underflow") ELSE Ok(<<S(SubT(T(a), T(b)), I(V(a)[2] - V(b)[2]))>> \o r2)
    [] op = "SUB_MUTEZ" -> Ok(<<S(TOpt(TMutez), IF V(a)[2] >= V(b)[2] THEN <<"some", I(V(a)[2] - V(b)[2])>> ELSE <<"none">>)>> \o r2)
    [] op = "MUL" -> IF MulT(T(a), T(b)) = TMutez /\ V(a)[2] * V(b)[2] > MutezMax THEN Err("overflow")
                     ELSE Ok(<<S(MulT(T(a), T(b)), I(V(a)[2] * V(b)[2]))>> \o r2)
    [] op = "NEG" -> Ok(<<S(TInt, I(-V(a)[2]))>> \o r1)
    [] op = "ABS" -> Ok(<<S(TNat, I(Abs(V(a)[2])))>> \o r1)
    [] op = "INT" -> Ok(<<S(TInt, V(a))>> \o r1)
    [] op = "ISNAT" -> Ok(<<S(TOpt(TNat), IF V(a)[2] >= 0 THEN <<"some", V(a)>> ELSE <<"none">>)>> \o r1)
    [] op = "EDIV" ->
         LET rt == TOpt(TPair(EDivQT(T(a), T(b)), EDivRT(T(a), T(b)))) IN
         IF V(b)[2] = 0 THEN Ok(<<S(rt, <<"none">>)>> \o r2)
         ELSE LET d == EDivMod(V(a)[2], V(b)[2]) IN Ok(<<S(rt, <<"some", <<"p", I(d[1]), I(d[2])>>>>)>> \o r2)
    [] op = "LSL" -> IF V(b)[2] > 256 THEN Err("shift") ELSE Ok(<<S(TNat, I(V(a)[2] * Pow2(V(b)[2])))>> \o r2)
    [] op = "LSR" -> IF V(b)[2] > 256 THEN Err("shift")
                     ELSE Ok(<<S(TNat, I(IF V(b)[2] > 30 THEN 0 ELSE V(a)[2] \div Pow2(V(b)[2])))>> \o r2)    \* native values are below 2^31
    [] op = "AND" -> IF T(a) = TBool THEN Ok(<<S(TBool, B(V(a)[2] /\ V(b)[2]))>> \o r2)
                     ELSE IF V(a)[2] >= 0 THEN Ok(<<S(TNat, I(BitOp("and", V(a)[2], V(b)[2])))>> \o r2)
                     ELSE \* int AND nat with a negative int: two's complement, (-x) = ~(x-1):  a & b = b & ~(|a|-1) = b - (b & (|a|-1))
                          Ok(<<S(TNat, I(V(b)[2] - BitOp("and", V(b)[2], -V(a)[2] - 1)))>> \o r2)
    [] op = "OR" -> IF T(a) = TBool THEN Ok(<<S(TBool, B(V(a)[2] \/ V(b)[2]))>> \o r2) ELSE Ok(<<S(TNat, I(BitOp("or", V(a)[2], V(b)[2])))>> \o r2)
    [] op = "XOR" -> IF T(a) = TBool THEN Ok(<<S(TBool, B(V(a)[2] # V(b)[2]))>> \o r2) ELSE Ok(<<S(TNat, I(BitOp("xor", V(a)[2], V(b)[2])))>> \o r2)
    [] op = "NOT" -> IF T(a) = TBool THEN Ok(<<S(TBool, B(~V(a)[2]))>> \o r1) ELSE Ok(<<S(TInt, I(-V(a)[2] - 1))>> \o r1)
    [] op = "SIZE" -> Ok(<<S(TNat, I(IF IsSym(V(a)) THEN DigestLen(V(a)[2]) ELSE Len(V(a)[2])))>> \o r1)
    [] op = "CONCAT" -> IF T(a)[1] = "list" THEN Ok(<<S(T(a)[2], <<IF T(a)[2] = TStr THEN "s" ELSE "b", ConcatAll(V(a)[2])>>)>> \o r1)
                        ELSE Ok(<<S(T(a), <<V(a)[1], V(a)[2] \o V(b)[2]>>)>> \o r2)
    [] op = "SLICE" -> LET off == V(a)[2] len == V(b)[2] s == V(c)[2] IN
                       IF off < Len(s) /\ off + len <= Len(s) THEN Ok(<<S(TOpt(T(c)), <<"some", <<V(c)[1], SubSeq(s, off + 1, off + len)>>>>)>> \o r3)
                       ELSE Ok(<<S(TOpt(T(c)), <<"none">>)>> \o r3)
    [] op = "MEM" -> IF T(b)[1] = "set" THEN Ok(<<S(TBool, B(SetMem(T(a), V(b)[2], V(a))))>> \o r2)
                     ELSE Ok(<<S(TBool, B(MapGet(T(a), V(b)[2], V(a))[1] = "some"))>> \o r2)
    [] op = "GETK" -> Ok(<<S(TOpt(T(b)[3]), MapGet(T(a), V(b)[2], V(a)))>> \o r2)
    [] op = "UPDATEK" -> IF T(c)[1] = "set"
                         THEN Ok(<<S(T(c), <<"set", IF V(b)[2] THEN SetIns(T(a), V(c)[2], V(a)) ELSE SetDel(T(a), V(c)[2], V(a))>>)>> \o r3)
                         ELSE Ok(<<S(T(c), <<"map", IF V(b)[1] = "none" THEN MapDel(T(a), V(c)[2], V(a)) ELSE MapPut(T(a), V(c)[2], V(a), V(b)[2])>>)>> \o r3)
    [] op = "GET_AND_UPDATE" -> Ok(<<S(T(b), MapGet(T(a), V(c)[2], V(a))),
                                     S(T(c), <<"map", IF V(b)[1] = "none" THEN MapDel(T(a), V(c)[2], V(a)) ELSE MapPut(T(a), V(c)[2], V(a), V(b)[2])>>)>> \o r3)
    [] op \in EnvInstrs -> IF op \in DOMAIN e THEN Ok(<<S(EnvInstrType(op), e[op])>> \o st) ELSE Err("noenv")
    [] op \in HashInstrs -> Ok(<<S(TBytes, SymHash(op, V(a)))>> \o r1)
    [] op = "TICKET" -> IF V(b)[2] = 0 THEN Ok(<<S(TOpt(TTicket(T(a))), <<"none">>)>> \o r2)
                        ELSE IF "SELF_ADDRESS" \notin DOMAIN e THEN Err("noenv")
                        ELSE Ok(<<S(TOpt(TTicket(T(a))), <<"some", <<"t", e["SELF_ADDRESS"], V(a), V(b)[2]>>>>)>> \o r2)
    [] op = "READ_TICKET" -> Ok(<<S(TPair(TAddr, TPair(T(a)[2], TNat)), <<"p", V(a)[2], <<"p", V(a)[3], I(V(a)[4])>>>>), a>> \o r1)
    [] op = "SPLIT_TICKET" ->
         LET n1 == V(b)[2][2]  n2 == V(b)[3][2]  tk == V(a) IN
         IF n1 > 0 /\ n2 > 0 /\ n1 + n2 = tk[4]
         THEN Ok(<<S(TOpt(TPair(T(a), T(a))), <<"some", <<"p", <<"t", tk[2], tk[3], n1>>, <<"t", tk[2], tk[3], n2>>>>>>)>> \o r2)
         ELSE Ok(<<S(TOpt(TPair(T(a), T(a))), <<"none">>)>> \o r2)
    [] op = "JOIN_TICKETS" ->
         LET x == V(a)[2]  y == V(a)[3] IN
         IF x[2] = y[2] /\ x[3] = y[3] THEN Ok(<<S(TOpt(T(a)[2]), <<"some", <<"t", x[2], x[3], x[4] + y[4]>>>>)>> \o r1)
         ELSE Ok(<<S(TOpt(T(a)[2]), <<"none">>)>> \o r1)
    [] op = "SEQ" -> RunSeq(i[2], st, e, f)
    [] OTHER -> Err("unsupported")

\* type preservation of the reference semantics itself (Leg A of C02)
SlotsOK(st) == \A k \in DOMAIN st : HasType(V(st[k]), T(st[k]))
=============================================================================
