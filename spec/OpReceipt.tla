------------------------------ MODULE OpReceipt ------------------------------
(* Operation-group receipts (src/pytezos/operation/result.py, class OperationResult) - growth of
   the specification beyond the listed properties.

   A receipt is the JSON a node returns for an operation group that was run or included in a
   block: a list of contents; a manager operation (transaction, origination, reveal, delegation)
   carries metadata.operation_result and a flat list metadata.internal_operation_results (the
   operations emitted by the contracts it called, each with its own result); other kinds
   (activate_account, ...) carry metadata without a result; a group that has not been run has no
   metadata at all.  A result has a status (applied | failed | backtracked | skipped) and,
   depending on the status and the kind, the gas it consumed, the storage it paid for, the
   accounts it allocated / contracts it originated and the errors that stopped it.

   OperationResult offers two generators over that tree, iter_contents and iter_results, and a
   family of aggregates that all run over iter_results.  The model walks the tree the way the
   generators do, ONE ACTION PER YIELDED ITEM, and keeps one accumulator per aggregate; the
   invariants state, over the tree as a set of nodes, what the aggregates mean to a user:

     * every node is visited exactly once, in document order (content, its internal operations,
       next content ...), a result is seen once and only where there is one;
     * consumed gas is the sum over all results of ceil(milligas / 1000) (the protocol reports gas
       per result, rounded up; Gas.Arith.ceil);
     * the paid storage size diff is the sum over the results;
     * the allocation burn, in bytes of storage (origination_size = 257 each), counts every
       allocated destination and every originated contract;
     * the group is applied iff every result is applied;
     * errors / originated contracts are the concatenation over the results in document order.

   The walk is over the whole group (scope 0) or over ONE content passed on its own (scope i > 0;
   this is how OperationGroup.autofill computes the limits of each content).

   Tuples, tag/first position fixed:
     content  = <<kind, form, dest, result, internals>>   form "meta" | "nores" | "nometa"
     internal = <<kind, src, result>>
     result   = <<status, mgas, gmode, psd, alloc, norig, nerr>>
                 mgas   consumed milligas, -1 = the result has no gas fields
                 gmode  "m"  consumed_milligas only (protocols >= 015)
                        "mg" consumed_gas and consumed_milligas (008 - 014)
                        "g"  consumed_gas only (<= 007)            "none" no gas fields
                 psd    paid_storage_size_diff, -1 = absent
                 alloc  allocated_destination_contract: 0 absent, 1 false, 2 true
                 norig  length of originated_contracts, -1 = absent
                 nerr   length of errors, -1 = absent
     dest / src: 0 = the group's source account, 1, 2 = contracts A, B (only from_transaction looks at them)
   Error k of node n is the number 10 * Ident(n) + k, likewise for originated contracts, so that
   "document order" is "ascending". *)
EXTENDS Integers, Sequences, FiniteSets, TLC
CONSTANTS Families      \* the bounded universe is a union of families; a family is a record
                        \*   [top, int : kinds of contents / of internal operations,
                        \*    st, mg, gm, psd, al, no, ne : values of the result fields (absent is always added),
                        \*    de, sr : destinations / emitters,  C, I, N : max contents, internals per content, nodes,
                        \*    scopes : also walk every single content on its own]

ManagerKinds == {"transaction", "origination", "reveal", "delegation"}
NoResult == <<"none", -1, "none", -1, 0, -1, -1>>
OriginationSize == 257

\* ---------------------------------------------------------------- the bounded universe
WF(f, kind, r) ==
  LET st == r[1] mg == r[2] gm == r[3] ps == r[4] al == r[5] no == r[6] ne == r[7] IN
  CASE st = "skipped" -> mg = -1 /\ gm = "none" /\ ps = -1 /\ al = 0 /\ no = -1 /\ ne = -1
    [] st = "failed"  -> mg = -1 /\ gm = "none" /\ ps = -1 /\ al = 0 /\ no = -1 /\ ne >= 1
    [] OTHER ->   \* applied, backtracked: the full result; a backtracked one may repeat the errors that reverted it
         /\ mg >= 0 /\ gm # "none"
         /\ (kind \notin {"transaction", "origination"} => ps = -1)
         /\ (kind = "origination" /\ f.psd # {} => ps >= 0)
         /\ (kind # "transaction" => al = 0)
         /\ (kind = "origination" => no >= 1)
         /\ (kind = "transaction" => no <= 0)
         /\ (kind \notin {"transaction", "origination"} => no = -1)
         /\ (st = "applied" => ne = -1)
         /\ ne # 0
ResultPool(f, kind) ==
  {r \in f.st \X (f.mg \cup {-1}) \X (f.gm \cup {"none"}) \X (f.psd \cup {-1}) \X (f.al \cup {0})
         \X (f.no \cup {-1}) \X (f.ne \cup {-1}) : WF(f, kind, r)}
SeqsUpTo(S, n) == UNION {[1..k -> S] : k \in 0..n}
Internals(f) == {<<kr[1], s, kr[2]>> : s \in f.sr, kr \in UNION {{<<k, r>> : r \in ResultPool(f, k)} : k \in f.int}}
ContentPool(f) ==
  LET inseqs == SeqsUpTo(Internals(f), f.I) IN
  UNION {
    IF k \in ManagerKinds
    THEN {<<k, "meta", d, r, ins>> : d \in (IF k = "transaction" THEN f.de ELSE {1}), r \in ResultPool(f, k),
                                      ins \in (IF k \in {"transaction", "origination"} THEN inseqs ELSE {<<>>})}
         \cup {<<k, "nometa", 1, NoResult, <<>> >>}
    ELSE {<<k, "nores", 1, NoResult, <<>> >>}
    : k \in f.top}
RECURSIVE NodeCount(_)
NodeCount(rcp) == IF rcp = <<>> THEN 0 ELSE LET rest == NodeCount(Tail(rcp)) IN 1 + Len(Head(rcp)[5]) + rest
\* contents are added one at a time so that the node bound prunes early
RECURSIVE ReceiptsUpTo(_, _)
ReceiptsUpTo(f, n) ==
  IF n = 0 THEN {<<>>}
  ELSE LET shorter == ReceiptsUpTo(f, n - 1)
           pool == ContentPool(f) IN
       shorter \cup {Append(rcp, c) : rcp \in {x \in shorter : Len(x) = n - 1 /\ NodeCount(x) < f.N}, c \in pool}
ReceiptsOf(f) == {rcp \in ReceiptsUpTo(f, f.C) : Len(rcp) >= 1 /\ NodeCount(rcp) <= f.N}

\* ---------------------------------------------------------------- the walk (as coded)
VARIABLES rc, scope,          \* the input: receipt, and 0 (whole group) or the index of the single content passed
          pc, ci, ii,         \* "walk" | "done"; next item: content ci, ii = 0 the content itself, ii > 0 its internal operation ii
          yielded,            \* iter_contents so far: <<internal?, ident>>
          seen,               \* iter_results so far: idents of the nodes whose result was yielded
          gas, psd, burn, applied, errs, origs     \* accumulators of the aggregates
vars == <<rc, scope, pc, ci, ii, yielded, seen, gas, psd, burn, applied, errs, origs>>

Ident(i, j) == 10 * i + j
First == IF scope = 0 THEN 1 ELSE scope
Last == IF scope = 0 THEN Len(rc) ELSE scope
CeilDiv(a, b) == (a + b - 1) \div b
Ids(n, cnt) == IF cnt <= 0 THEN <<>> ELSE [k \in 1..cnt |-> 10 * n + k]

\* gas of one result as the code computes it.
\* DEVIATION D1 (named, modelled as coded): only `consumed_milligas` is read; a result of an old protocol that
\* carries `consumed_gas` alone (gmode "g") counts as 0.  IntendedGas below is what the receipt says.
CodedGas(r) == IF r[3] \in {"m", "mg"} THEN CeilDiv(r[2], 1000) ELSE 0
IntendedGas(r) == IF r[3] = "none" THEN 0 ELSE CeilDiv(r[2], 1000)
\* storage of one result as the code computes it.
\* DEVIATION D2 (named, modelled as coded): the storage aggregates and originated_contracts take every result,
\* also the backtracked ones whose effects were reverted; the intent is only stated for applied groups.
\* DEVIATION D3 (named, modelled as coded): 257 once per result that allocated or originated, not once per contract
\* (the same for every receipt a current protocol can produce: a result originates at most one contract).
CodedBurn(r) == IF r[5] = 2 \/ r[6] >= 1 THEN OriginationSize ELSE 0
IntendedBurn(r) == OriginationSize * ((IF r[5] = 2 THEN 1 ELSE 0) + (IF r[6] >= 1 THEN r[6] ELSE 0))
CodedPsd(r) == IF r[4] >= 0 THEN r[4] ELSE 0

Account(n, r) ==
  /\ seen' = Append(seen, n)
  /\ gas' = gas + CodedGas(r)
  /\ psd' = psd + CodedPsd(r)
  /\ burn' = burn + CodedBurn(r)
  /\ applied' = (applied /\ r[1] = "applied")
  /\ errs' = (IF r[1] # "applied" THEN errs \o Ids(n, r[7]) ELSE errs)
  /\ origs' = origs \o Ids(n, r[6])
Advance(i, j) ==      \* position after yielding item (i, j)
  IF j < Len(rc[i][5]) THEN ci' = i /\ ii' = j + 1 /\ pc' = "walk"
  ELSE ci' = i + 1 /\ ii' = 0 /\ pc' = (IF i + 1 > Last THEN "done" ELSE "walk")

Init == /\ \E f \in Families : rc \in ReceiptsOf(f) /\ scope \in (IF f.scopes THEN 0..Len(rc) ELSE {0})
        /\ pc = "walk" /\ ci = (IF scope = 0 THEN 1 ELSE scope) /\ ii = 0
        /\ yielded = <<>> /\ seen = <<>> /\ gas = 0 /\ psd = 0 /\ burn = 0 /\ applied = TRUE /\ errs = <<>> /\ origs = <<>>
\* iter_contents yields the content; iter_results yields metadata.operation_result if there is one
YieldContent ==
  /\ pc = "walk" /\ ii = 0
  /\ yielded' = Append(yielded, <<FALSE, Ident(ci, 0)>>)
  /\ IF rc[ci][2] = "meta" THEN Account(Ident(ci, 0), rc[ci][4])
     ELSE UNCHANGED <<seen, gas, psd, burn, applied, errs, origs>>
  /\ Advance(ci, 0) /\ UNCHANGED <<rc, scope>>
\* iter_contents yields internal operation ii of content ci; iter_results yields its result
YieldInternal ==
  /\ pc = "walk" /\ ii > 0
  /\ yielded' = Append(yielded, <<TRUE, Ident(ci, ii)>>)
  /\ Account(Ident(ci, ii), rc[ci][5][ii][3])
  /\ Advance(ci, ii) /\ UNCHANGED <<rc, scope>>
Next == YieldContent \/ YieldInternal
Spec == Init /\ [][Next]_vars

\* ---------------------------------------------------------------- what the aggregates mean (declarative, over the set of nodes)
Nodes == UNION {{<<i, j>> : j \in 0..Len(rc[i][5])} : i \in First..Last}
HasResult(ij) == ij[2] > 0 \/ rc[ij[1]][2] = "meta"
ResultAt(ij) == IF ij[2] = 0 THEN rc[ij[1]][4] ELSE rc[ij[1]][5][ij[2]][3]
ResNodes == {ij \in Nodes : HasResult(ij)}
\* sum over a set of nodes of one quantity of their results (w names the quantity)
Quantity(w, r) == CASE w = "gas" -> IntendedGas(r) [] w = "codedgas" -> CodedGas(r) [] w = "psd" -> CodedPsd(r)
                    [] w = "burn" -> IntendedBurn(r) [] w = "codedburn" -> CodedBurn(r)
RECURSIVE Sum(_, _)
Sum(S, w) == IF S = {} THEN 0 ELSE LET x == CHOOSE x \in S : TRUE
                                       rest == Sum(S \ {x}, w) IN Quantity(w, ResultAt(x)) + rest
Ascending(s) == \A k \in 1..Len(s) - 1 : s[k] < s[k + 1]
Range(s) == {s[k] : k \in DOMAIN s}
AllApplied == \A ij \in ResNodes : ResultAt(ij)[1] = "applied"
LegacyOnly == \E ij \in ResNodes : ResultAt(ij)[3] = "g"
MultiOrig == \E ij \in ResNodes : ResultAt(ij)[6] >= 2 \/ (ResultAt(ij)[6] >= 1 /\ ResultAt(ij)[5] = 2)
Done == pc = "done"

\* iter_contents: every node once, in document order, flagged internal iff it is an internal operation
WalkIsDocumentOrder ==
  Done => /\ Len(yielded) = Cardinality(Nodes)
          /\ Ascending([k \in DOMAIN yielded |-> yielded[k][2]])
          /\ {y[2] : y \in Range(yielded)} = {Ident(ij[1], ij[2]) : ij \in Nodes}
          /\ \A y \in Range(yielded) : y[1] = (y[2] % 10 > 0)
\* iter_results: exactly the results that exist, once, in document order
ResultsOnce ==
  Done => Ascending(seen) /\ Range(seen) = {Ident(ij[1], ij[2]) : ij \in ResNodes}
GasIsSum == Done => /\ gas = Sum(ResNodes, "codedgas")
                    /\ (~LegacyOnly => gas = Sum(ResNodes, "gas"))          \* D1
StorageIsSum == Done => /\ psd = Sum(ResNodes, "psd")                          \* D2: meaningful for applied groups
                        /\ burn = Sum(ResNodes, "codedburn")
                        /\ (~MultiOrig => burn = Sum(ResNodes, "burn"))         \* D3
AppliedIffAll == Done => (applied <=> AllApplied)
ErrorsInOrder ==
  Done => /\ Ascending(errs)
          /\ Range(errs) = UNION {Range(Ids(Ident(ij[1], ij[2]), ResultAt(ij)[7])) : ij \in {x \in ResNodes : ResultAt(x)[1] # "applied"}}
          /\ (AllApplied => errs = <<>>)
OrigsInOrder ==
  Done => /\ Ascending(origs)
          /\ Range(origs) = UNION {Range(Ids(Ident(ij[1], ij[2]), ResultAt(ij)[6])) : ij \in ResNodes}
\* a group that is not applied (and was run) names the reason, except when everything left is "skipped"
FailureHasErrors == Done /\ ~applied /\ (\E ij \in ResNodes : ResultAt(ij)[1] = "failed") => errs # <<>>
\* the accumulators only grow along the walk, one result at a time
Monotone == Len(seen) <= Len(yielded) /\ gas >= 0 /\ psd >= 0 /\ burn >= 0 /\ burn <= OriginationSize * Len(seen)

\* ---------------------------------------------------------------- OperationResult.from_transaction(content).operations
\* "the operations emitted by the called contract": the internal operations whose source is the destination.
IntendedOps(i) == SelectSeq([j \in 1..Len(rc[i][5]) |-> IF rc[i][5][j][2] = rc[i][3] THEN Ident(i, j) ELSE 0], LAMBDA x : x # 0)
\* DEVIATION D4 (named, modelled as coded): the filter source = destination runs over the content itself as well, so a
\* transfer of an account to itself (dest 0 = the source) lists the transaction among the operations it emitted.
CodedOps(i) == (IF rc[i][3] = 0 THEN <<Ident(i, 0)>> ELSE <<>>) \o IntendedOps(i)
SelfTransfer(i) == rc[i][1] = "transaction" /\ rc[i][3] = 0
OpsAreEmitted == \A i \in 1..Len(rc) : ~SelfTransfer(i) => /\ CodedOps(i) = IntendedOps(i)
                                                           /\ \A x \in Range(CodedOps(i)) : x \div 10 = i /\ x % 10 > 0

\* export of every completed walk for the replay
Export == Done => PrintT(<<"OUT", rc, scope, yielded, seen, <<gas, psd, burn, applied>>, errs, origs,
                           <<Sum(ResNodes, "gas"), Sum(ResNodes, "burn"), AllApplied>>,
                           [i \in 1..Len(rc) |-> CodedOps(i)], [i \in 1..Len(rc) |-> IntendedOps(i)] >>)
=============================================================================
