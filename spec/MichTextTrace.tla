--------------------------- MODULE MichTextTrace ---------------------------
(* Leg C for C18: token sequences obtained by lexing the text pytezos' micheline_to_michelson printed for
   an expression are judged by the reference grammar of MichText: Parse(tokens) must be the expression.
   Used (a) for the mainnet contract scripts shipped with the repository's tests and (b) to decide the
   Leg B cases whose tokens differ from Format(e) (a redundant parenthesis or semicolon is still correct
   Michelson; a missing parenthesis is not).  Cases come from a JSON file
     [ {"id": "...", "e": <expression>, "toks": [<token>, ...]}, ... ].
   Every case is an initial state of its own; the verdict is printed as <<"OUT", id, n>> or
   <<"REJECT", id, what, position>> and the harness requires one line per case. *)
EXTENDS Integers, Sequences, TLC, Json, IOUtils
VARIABLES i, verdict
M == INSTANCE MichText WITH LeafTypes <- {}, Instr0 <- {}, Level <- 0,
                            e <- <<>>, toks <- <<>>, back <- <<>>, pc <- ""

Cases == JsonDeserialize(IOEnv.TRACE_FILE)

Check(c) ==
  LET r == M!Parse(c.toks) IN
  IF ~r[1] THEN <<"REJECT", c.id, "syntax", r[2][2]>>
  ELSE IF r[2] # c.e THEN <<"REJECT", c.id, "tree", 0>>
  ELSE <<"OUT", c.id, Len(c.toks)>>

Init == i \in 1..Len(Cases) /\ verdict = <<"pending">>
Next == verdict = <<"pending">> /\ verdict' = Check(Cases[i]) /\ PrintT(verdict') /\ i' = i
Spec == Init /\ [][Next]_<<i, verdict>>
=============================================================================
