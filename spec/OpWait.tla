-------------------------------- MODULE OpWait --------------------------------
(* ShellQuery.wait_operations (src/pytezos/rpc/shell.py) on top of the block iteration of
   BlockWait: visit the current block and up to `ttl` further blocks until every watched
   operation has been seen in a visited block, then wait min_confirmations - 1 more blocks.
   Growth of the specification (not a listed property).  Reorganisations are left out here
   (BlockWait covers them): the node either keeps its head or bakes the next block, which
   may include any of the watched operations not yet on chain. *)
EXTENDS Integers, Sequences, FiniteSets, TLC
CONSTANTS Ops,            \* watched operation hashes
          Ttl, MinConf, BlockTimeout, MaxPolls
VARIABLES level,          \* level of the node's head relative to the start block (0 = start block)
          inBlock,        \* function Ops -> level of inclusion, -1 = not on chain
          phase,          \* "search" | "confirm" | "returned" | "gaveup" | "timeout"
          visited,        \* level of the last block the client processed
          found,          \* sequence of operations in the order the client found them
          confStart,      \* level at which the search ended
          delay, hist
vars == <<level, inBlock, phase, visited, found, confStart, delay, hist>>
OnChain == {o \in Ops : inBlock[o] >= 0}
SeqToSet(s) == {s[i] : i \in DOMAIN s}
\* operations of a block in a canonical order (the node lists them in a fixed order)
RECURSIVE Ordered(_)
Ordered(S) == IF S = {} THEN <<>> ELSE LET m == CHOOSE x \in S : \A y \in S : x <= y IN <<m>> \o Ordered(S \ {m})
NewlyFoundAt(l) == Ordered({o \in Ops : inBlock[o] = l} \ SeqToSet(found))

Init == /\ level = 0 /\ inBlock \in [Ops -> {-1, 0}] /\ visited = -1 /\ found = <<>> /\ confStart = -1
        /\ phase = "search" /\ delay = 0 /\ hist = <<>>
\* the client processes the block at `visited + 1` (it has just been yielded by the block iterator)
Process ==
  /\ phase = "search" /\ visited < level
  /\ LET l == visited + 1
         f == found \o [k \in 1..Len(NewlyFoundAt(l)) |-> NewlyFoundAt(l)[k]] IN
       /\ visited' = l /\ found' = f
       /\ IF Len(f) = Cardinality(Ops)
          THEN /\ confStart' = l /\ phase' = (IF MinConf <= 1 THEN "returned" ELSE "confirm")
          ELSE /\ confStart' = confStart /\ phase' = (IF l >= Ttl THEN "gaveup" ELSE "search")
  /\ UNCHANGED <<level, inBlock, delay, hist>>
\* one poll of the head while waiting for the next block
Poll(newBlock, included) ==
  /\ phase \in {"search", "confirm"} /\ visited = level /\ Len(hist) < MaxPolls
  /\ included \subseteq (Ops \ OnChain)
  /\ hist' = Append(hist, <<newBlock, Ordered(included)>>)
  /\ IF newBlock
     THEN /\ level' = level + 1 /\ delay' = 0
          /\ inBlock' = [o \in Ops |-> IF o \in included THEN level + 1 ELSE inBlock[o]]
          /\ IF phase = "confirm"
             THEN /\ visited' = level + 1
                  /\ phase' = (IF level + 1 - confStart >= MinConf - 1 THEN "returned" ELSE "confirm")
             ELSE UNCHANGED <<visited, phase>>
     ELSE /\ included = {} /\ delay' = delay + 1
          \* deliberate deviation of the code, modelled as it is: block_timeout is only forwarded to the search loop; the
          \* confirmation loop waits with the (very large) default timeout
          /\ phase' = (IF delay + 1 = BlockTimeout /\ phase = "search" THEN "timeout" ELSE phase)
          /\ UNCHANGED <<level, inBlock, visited>>
  /\ UNCHANGED <<found, confStart>>
Next == Process \/ \E nb \in BOOLEAN, inc \in SUBSET Ops : Poll(nb, inc)
Spec == Init /\ [][Next]_vars

ReturnsAll == phase = "returned" => SeqToSet(found) = Ops /\ \A o \in Ops : inBlock[o] >= 0 /\ inBlock[o] <= Ttl
Confirmed == phase = "returned" => \A o \in Ops : level - inBlock[o] >= MinConf - 1
FoundInOrder == \A i, j \in DOMAIN found : i < j => inBlock[found[i]] <= inBlock[found[j]]
GaveUpOnlyAfterTtl == phase = "gaveup" => visited >= Ttl /\ SeqToSet(found) # Ops
NoDuplicates == Len(found) = Cardinality(SeqToSet(found))
=============================================================================
