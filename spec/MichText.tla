------------------------------ MODULE MichText ------------------------------
(* C18 - Michelson concrete syntax at token level, written from the Micheline grammar (not from pytezos).

   Expressions:  <<"int", neg, mag>>  <<"string", chars>>  <<"bytes", bytes>>  <<"seq", <<items>>>>
                 <<"prim", name, <<args>>, <<annots>>>>       (name and annotations are strings)
   Tokens:       <<"LP">> <<"RP">> <<"LB">> <<"RB">> <<"SEMI">> <<"prim", name>> <<"annot", text>>
                 and the three literal nodes themselves.

   Format(e): a primitive application is written  name annot* arg*;  it is parenthesised exactly when it
   stands in argument position and has arguments or annotations; a sequence is  { item ; item ; ... };
   a script (sequence of parameter/storage/code/view sections) at the root is written without braces.
   Parse(tokens): recursive descent over the same grammar, tolerant of redundant parentheses and of a
   trailing semicolon (both are legal Michelson), returning <<ok, expr>>.

   State machine: Init picks an expression of the bounded universe (types, data, code, scripts),
   DoFormat produces the tokens, DoParse parses them.  RoundTrip is the C18 invariant (Leg A); every
   expression is then formatted by pytezos (inline and multi-line), the text lexed and compared with
   Format(e), and parsed back by pytezos (Leg B); token sequences that differ from Format(e), and the
   texts produced for the mainnet scripts, are judged by Parse in MichTextTrace (Leg C). *)
EXTENDS Integers, Sequences, TLC

CONSTANTS LeafTypes,    \* names of argument-less types
          Instr0,       \* names of argument-less instructions
          Level         \* 1 = quick pools, 2 = thorough pools

LP == <<"LP">>  RP == <<"RP">>  LB == <<"LB">>  RB == <<"RB">>  SEMI == <<"SEMI">>
IsLit(x) == x[1] \in {"int", "string", "bytes"}

\* ---------- formatter ----------
RECURSIVE Fmt(_, _), FmtArgs(_), FmtItems(_)
AnnToks(as) == [k \in 1..Len(as) |-> <<"annot", as[k]>>]
FmtArgs(as) == IF as = <<>> THEN <<>> ELSE Fmt(Head(as), "arg") \o FmtArgs(Tail(as))
FmtItems(xs) == IF xs = <<>> THEN <<>>
                ELSE IF Len(xs) = 1 THEN Fmt(xs[1], "item")
                ELSE Fmt(Head(xs), "item") \o <<SEMI>> \o FmtItems(Tail(xs))
Fmt(e, pos) ==
  CASE IsLit(e) -> <<e>>
    [] e[1] = "seq" -> <<LB>> \o FmtItems(e[2]) \o <<RB>>
    [] e[1] = "prim" ->
         LET body == << <<"prim", e[2]>> >> \o AnnToks(e[4]) \o FmtArgs(e[3]) IN
         IF pos = "arg" /\ (e[3] # <<>> \/ e[4] # <<>>) THEN <<LP>> \o body \o <<RP>> ELSE body
IsScript(e) == /\ e[1] = "seq" /\ Len(e[2]) >= 2
               /\ \A k \in 1..Len(e[2]) : e[2][k][1] = "prim" /\ e[2][k][2] \in {"parameter", "storage", "code", "view"}
Format(e) == IF IsScript(e) THEN FmtItems(e[2]) ELSE Fmt(e, "item")

\* ---------- parser: results are <<ok, expr (or list), next position>> ----------
Fail(p) == <<FALSE, <<"syntax", p>>, 0>>
StartsArg(t) == t[1] \in {"int", "string", "bytes", "prim", "LB", "LP"}
Is(ts, p, kind) == p <= Len(ts) /\ ts[p][1] = kind
RECURSIVE PAnn(_, _)
PAnn(ts, p) == IF Is(ts, p, "annot") THEN LET r == PAnn(ts, p + 1) IN <<<<ts[p][2]>> \o r[1], r[2]>> ELSE <<<<>>, p>>
RECURSIVE PArg(_, _, _), PArgs(_, _, _), PApp(_, _, _), PItem(_, _, _), PItems(_, _, _, _)
PApp(ts, p, fuel) ==                     \* name annot* arg*
  IF ~Is(ts, p, "prim") \/ fuel = 0 THEN Fail(p)
  ELSE LET an == PAnn(ts, p + 1)
           as == PArgs(ts, an[2], fuel - 1) IN
       IF ~as[1] THEN as ELSE <<TRUE, <<"prim", ts[p][2], as[2], an[1]>>, as[3]>>
PArgs(ts, p, fuel) ==
  IF p <= Len(ts) /\ StartsArg(ts[p])
  THEN LET r == PArg(ts, p, fuel) IN
       IF ~r[1] THEN r
       ELSE LET t == PArgs(ts, r[3], fuel) IN IF ~t[1] THEN t ELSE <<TRUE, <<r[2]>> \o t[2], t[3]>>
  ELSE <<TRUE, <<>>, p>>
PArg(ts, p, fuel) ==
  IF p > Len(ts) \/ fuel = 0 THEN Fail(p)
  ELSE LET t == ts[p] IN
       CASE IsLit(t) -> <<TRUE, t, p + 1>>
         [] t[1] = "prim" -> <<TRUE, <<"prim", t[2], <<>>, <<>>>>, p + 1>>
         [] t[1] = "LB" -> PItems(ts, p + 1, fuel - 1, "RB")
         [] t[1] = "LP" -> LET r == PApp(ts, p + 1, fuel - 1) IN
                           IF ~r[1] THEN r ELSE IF Is(ts, r[3], "RP") THEN <<TRUE, r[2], r[3] + 1>> ELSE Fail(r[3])
         [] OTHER -> Fail(p)
PItem(ts, p, fuel) ==
  IF p > Len(ts) \/ fuel = 0 THEN Fail(p)
  ELSE IF ts[p][1] = "prim" THEN PApp(ts, p, fuel) ELSE PArg(ts, p, fuel)
\* items separated by SEMI up to the closing token ("RB", or "END" = end of input); returns a "seq" node and, in
\* position 3, the position after the closing token
PItems(ts, p, fuel, close) ==
  LET AtClose(q) == IF close = "END" THEN q = Len(ts) + 1 ELSE Is(ts, q, "RB")
      After(q) == IF close = "END" THEN q ELSE q + 1 IN
  IF AtClose(p) THEN <<TRUE, <<"seq", <<>>>>, After(p)>>
  ELSE IF fuel = 0 THEN Fail(p)
  ELSE LET r == PItem(ts, p, fuel) IN
       IF ~r[1] THEN r
       ELSE IF AtClose(r[3]) THEN <<TRUE, <<"seq", <<r[2]>>>>, After(r[3])>>
       ELSE IF ~Is(ts, r[3], "SEMI") THEN Fail(r[3])
       ELSE LET t == PItems(ts, r[3] + 1, fuel, close) IN
            IF ~t[1] THEN t ELSE <<TRUE, <<"seq", <<r[2]>> \o t[2][2]>>, t[3]>>
HasTopSemi(ts) ==      \* a semicolon outside every bracket
  \E k \in 1..Len(ts) : ts[k] = SEMI /\ LET Cnt(kind) == Len(SelectSeq(SubSeq(ts, 1, k), LAMBDA t : t[1] = kind)) IN
                                       Cnt("LB") = Cnt("RB") /\ Cnt("LP") = Cnt("RP")
Parse(ts) ==
  IF ts = <<>> THEN <<FALSE, <<"syntax", 0>>>>
  ELSE LET r == PItems(ts, 1, Len(ts) + 1, "END") IN
       IF ~r[1] THEN <<FALSE, r[2]>>
       ELSE IF Len(r[2][2]) = 1 /\ ~HasTopSemi(ts) THEN <<TRUE, r[2][2][1]>>       \* a single expression
       ELSE <<TRUE, r[2]>>                                                          \* a script: sections separated by ;

\* ---------- bounded universe ----------
Pr(n, a, an) == <<"prim", n, a, an>>
Sq(xs) == <<"seq", xs>>
Num(neg, m) == <<"int", neg, m>>
Str(s) == <<"string", s>>
Byt(b) == <<"bytes", b>>
int == Pr("int", <<>>, <<>>)
unit == Pr("unit", <<>>, <<>>)
\* annotations: field, type, variable; a bare marker; dotted and digit-carrying names; a long one that forces line breaks
TAnn == {<<>>, <<":t">>, <<"%f", ":t_1">>} \cup (IF Level >= 2 THEN {<<"%">>, <<"%a.b", ":t", "@v">>} ELSE {})
IAnn == {<<>>, <<"@v">>, <<"@v", "%f">>}
LongAnn == "%aaaaaaaaaaaaaaaaaaaaaaaaaaaaaaaaaaaaaaaaaaaaaaaaaaaaaaaaaaaaaaaa"
\* types
T0 == {Pr(n, <<>>, an) : n \in LeafTypes, an \in TAnn}
T0s == {int, Pr("chest", <<>>, <<":t">>), Pr("chest_key", <<>>, <<"%f", ":t_1">>), Pr("tx_rollup_l2_address", <<>>, <<"%f">>),
        Pr("never", <<>>, <<":t">>), Pr("unit", <<>>, <<LongAnn>>)}
       \cup (IF Level >= 2 THEN {Pr(n, <<>>, <<":t">>) : n \in LeafTypes} ELSE {})
T0p == {int, Pr("chest", <<>>, <<":t">>)}
T1 == {Pr("pair", <<a, b>>, an) : a \in T0s, b \in T0s, an \in {<<>>, <<"%f", ":t_1">>}}
      \cup {Pr(n, <<a>>, an) : n \in {"option", "list", "set", "contract", "ticket"}, a \in T0s, an \in {<<>>, <<":t">>}}
      \cup {Pr(n, <<a, b>>, <<>>) : n \in {"or", "lambda", "map", "big_map"}, a \in T0p, b \in T0s}
      \cup {Pr("pair", <<a, int, a>>, <<>>) : a \in T0s}
      \cup {Pr("sapling_state", <<Num(FALSE, <<8>>)>>, <<>>), Pr("sapling_transaction", <<Num(FALSE, <<8>>)>>, <<":t">>)}
T1s == {Pr("pair", <<int, Pr("chest", <<>>, <<":t">>)>>, <<>>), Pr("option", <<Pr("chest_key", <<>>, <<"%f", ":t_1">>)>>, <<":t">>),
        Pr("lambda", <<unit, int>>, <<>>), Pr("big_map", <<int, Pr("tx_rollup_l2_address", <<>>, <<"%f">>)>>, <<>>),
        Pr("ticket", <<Pr("chest", <<>>, <<":t">>)>>, <<"%f">>), Pr("or", <<Pr("never", <<>>, <<":t">>), Pr("unit", <<>>, <<LongAnn>>)>>, <<LongAnn>>)}
T2 == {Pr("pair", <<a, b>>, an) : a \in T1s, b \in T1s \cup T0p, an \in {<<>>, <<"%f">>}}
      \cup {Pr(n, <<a>>, <<>>) : n \in {"option", "list"}, a \in T1s}
      \cup {Pr("lambda", <<a, b>>, <<>>) : a \in T1s, b \in T0p}
\* data
big == <<0, 0, 0, 0, 0, 0, 0, 0, 64>>                 \* 2^70
tricky == <<113, 34, 92, 10, 32, 32, 35, 123>>        \* q"\<newline><two blanks>#{
slashes == <<67, 58, 92, 110, 101, 119, 92, 116, 92, 114, 92, 92, 110, 92>>     \* C:\new\t\r\\n\  - backslashes in front of the letters n, t, r (characters, not escapes), a doubled one, one at the end
long == [k \in 1..96 |-> 120]
D0 == {Num(FALSE, <<>>), Num(TRUE, <<1>>), Num(FALSE, big), Num(TRUE, big), Str(<<>>), Str(<<32, 97, 32, 32, 98, 32>>), Str(tricky), Str(long), Str(slashes),
       Byt(<<>>), Byt(<<0, 255>>), Pr("Unit", <<>>, <<>>), Pr("True", <<>>, <<>>), Pr("None", <<>>, <<>>)}
D0s == {Num(TRUE, <<1>>), Str(tricky), Byt(<<>>), Pr("Unit", <<>>, <<>>), Num(FALSE, big), Str(<<>>)}
D0p == {Num(TRUE, <<1>>), Str(long), Pr("None", <<>>, <<>>), Str(slashes)}
D1 == {Pr("Pair", <<a, b>>, <<>>) : a \in D0s, b \in D0s}
      \cup {Pr(n, <<a>>, <<>>) : n \in {"Left", "Right", "Some"}, a \in D0}
      \cup {Pr("Pair", <<a, b, a>>, <<>>) : a \in D0p, b \in D0p}
      \cup {Sq(<<>>)} \cup {Sq(<<a>>) : a \in D0} \cup {Sq(<<a, b>>) : a \in D0p, b \in D0p}
      \cup {Sq(<<Pr("Elt", <<a, b>>, <<>>)>>) : a \in D0p, b \in D0p}
      \cup {Sq(<<Pr("Elt", <<a, b>>, <<>>), Pr("Elt", <<b, a>>, <<>>)>>) : a \in D0p, b \in D0p}
D1s == {Pr("Pair", <<Num(TRUE, <<1>>), Str(tricky)>>, <<>>), Pr("Some", <<Pr("Unit", <<>>, <<>>)>>, <<>>), Pr("Left", <<Byt(<<>>)>>, <<>>),
        Sq(<<>>), Sq(<<Sq(<<>>), Sq(<<>>)>>), Sq(<<Pr("Elt", <<Num(FALSE, <<>>), Str(<<>>)>>, <<>>)>>),
        Pr("Lambda_rec", <<Sq(<<Pr("DROP", <<>>, <<>>)>>)>>, <<>>),
        Pr("Ticket", <<Str(<<75, 84, 49>>), int, Num(FALSE, <<1>>), Num(FALSE, <<10>>)>>, <<>>),
        Pr("constant", <<Str(<<101, 120, 112, 114>>)>>, <<>>)}
D2 == {Pr("Pair", <<a, b>>, <<>>) : a \in D1s, b \in D1s \cup {Num(TRUE, <<1>>)}}
      \cup {Pr(n, <<a>>, <<>>) : n \in {"Some", "Right"}, a \in D1s}
      \cup {Sq(<<a>>) : a \in D1s} \cup {Sq(<<a, b>>) : a \in D1s, b \in D1s}
\* code
drop == Pr("DROP", <<>>, <<>>)
I0 == {Pr(n, <<>>, an) : n \in Instr0, an \in IAnn}
C0 == {Sq(<<>>), Sq(<<drop>>), Sq(<<Pr("CAR", <<>>, <<"@v">>), Pr("SWAP", <<>>, <<>>)>>), Sq(<<Sq(<<>>)>>)}
two == Num(FALSE, <<2>>)
I1 == {Pr("DROP", <<two>>, <<>>), Pr("DIG", <<two>>, <<>>), Pr("PAIR", <<two>>, <<"@v">>)}
      \cup {Pr(n, <<c>>, an) : n \in {"DIP", "LOOP", "MAP", "ITER"}, c \in C0, an \in {<<>>, <<"@v">>}}
      \cup {Pr("DIP", <<two, c>>, <<>>) : c \in C0}
      \cup {Pr(n, <<c, d>>, <<>>) : n \in {"IF", "IF_NONE", "IF_LEFT", "IF_CONS"}, c \in C0, d \in C0}
      \cup {Pr("PUSH", <<t, d>>, an) : t \in T0s \cup T1s, d \in D0p \cup {Sq(<<>>)}, an \in {<<>>, <<"@v">>}}
      \cup {Pr("PUSH", <<t, d>>, <<>>) : t \in T0p, d \in D0s \cup D1s}
      \cup {Pr(n, <<t>>, an) : n \in {"NIL", "NONE", "LEFT", "CAST", "UNPACK", "CONTRACT"}, t \in T0s \cup T1s, an \in {<<>>, <<"%f">>}}
      \cup {Pr(n, <<t, u>>, <<>>) : n \in {"EMPTY_MAP", "EMPTY_BIG_MAP"}, t \in T0p, u \in T0s \cup T1s}
      \cup {Pr(n, <<t, u, c>>, an) : n \in {"LAMBDA", "LAMBDA_REC"}, t \in T0s, u \in T0p, c \in C0, an \in {<<>>, <<"@v">>}}
      \cup {Pr("VIEW", <<Str(<<118>>), t>>, <<>>) : t \in T0s} \cup {Pr("EMIT", <<t>>, <<"%f">>) : t \in T1s}
      \cup {Pr("SELF", <<>>, <<"%f">>)}
I1s == {Pr("PUSH", <<Pr("chest", <<>>, <<":t">>), Byt(<<0, 255>>)>>, <<>>), Pr("DIP", <<two, Sq(<<drop>>)>>, <<>>),
        Pr("IF", <<Sq(<<>>), Sq(<<drop>>)>>, <<>>), Pr("NIL", <<Pr("pair", <<int, Pr("chest_key", <<>>, <<"%f", ":t_1">>)>>, <<>>)>>, <<"@v">>),
        Pr("LAMBDA", <<Pr("tx_rollup_l2_address", <<>>, <<"%f">>), int, Sq(<<Pr("CAR", <<>>, <<"@v">>)>>)>>, <<>>),
        Pr("PUSH", <<Pr("string", <<>>, <<>>), Str(long)>>, <<>>)}
C1 == {Sq(<<i>>) : i \in I0 \cup I1} \cup {Sq(<<i, j>>) : i \in I1s \cup {drop}, j \in I1s \cup {drop}}
      \cup {Sq(<<drop, drop, drop>>), Sq(<<Sq(<<>>), Sq(<<>>)>>), Sq(<<Sq(<<drop>>), drop>>)}
C1s == {Sq(<<i>>) : i \in I1s} \cup {Sq(<<Pr("PUSH", <<Pr("string", <<>>, <<>>), Str(long)>>, <<>>), drop, Pr("IF", <<Sq(<<>>), Sq(<<drop>>)>>, <<>>)>>)}
I2 == {Pr(n, <<c>>, <<>>) : n \in {"DIP", "LOOP"}, c \in C1s}
      \cup {Pr("IF", <<c, d>>, <<>>) : c \in C1s, d \in C1s \cup {Sq(<<>>)}}
      \cup {Pr("LAMBDA", <<t, int, c>>, <<>>) : t \in T1s, c \in C1s}
      \cup {Pr("PUSH", <<Pr("lambda", <<t, int>>, <<>>), c>>, <<>>) : t \in T0s, c \in C1s}
C2 == {Sq(<<i>>) : i \in I2} \cup {Sq(<<i, drop>>) : i \in I2}
Scripts == {Sq(<<Pr("parameter", <<p>>, <<>>), Pr("storage", <<s>>, <<>>), Pr("code", <<c>>, <<>>)>>) :
              p \in T1s \cup T0p, s \in T0s, c \in {Sq(<<>>), Sq(<<drop>>), Sq(<<Pr("IF", <<Sq(<<>>), Sq(<<drop>>)>>, <<>>)>>)}}
           \cup {Sq(<<Pr("parameter", <<unit>>, <<>>), Pr("storage", <<unit>>, <<>>), Pr("code", <<Sq(<<drop>>)>>, <<>>),
                      Pr("view", <<Str(<<118>>), unit, t, Sq(<<drop>>)>>, <<>>)>>) : t \in T0s}
Sections == {Pr("parameter", <<t>>, <<>>) : t \in T0s \cup T1s} \cup {Pr("code", <<c>>, <<>>) : c \in C0}
I3 == {Pr("CREATE_CONTRACT", <<s>>, <<>>) : s \in Scripts} \cup {Pr("DIP", <<Sq(<<i>>)>>, <<>>) : i \in I2}
Universe == T0 \cup T1 \cup T2 \cup D0 \cup D1 \cup D2 \cup I0 \cup I1 \cup C0 \cup C1 \cup I2 \cup C2 \cup Scripts \cup Sections
            \cup (IF Level >= 2 THEN I3 \cup {Sq(<<i>>) : i \in I3} ELSE {Sq(<<i>>) : i \in {Pr("CREATE_CONTRACT", <<s>>, <<>>) : s \in Scripts}})

VARIABLES e, toks, back, pc
vars == <<e, toks, back, pc>>
Init == e \in Universe /\ toks = <<>> /\ back = <<FALSE, <<"none">>>> /\ pc = "format"
DoFormat == pc = "format" /\ toks' = Format(e) /\ pc' = "parse" /\ UNCHANGED <<e, back>>
DoParse == pc = "parse" /\ back' = Parse(toks) /\ pc' = "done" /\ UNCHANGED <<e, toks>>
Next == DoFormat \/ DoParse
Spec == Init /\ [][Next]_vars

\* ---------- C18 ----------
RoundTrip == pc = "done" => back = <<TRUE, e>>
\* no parenthesis is wasted on a bare primitive, and brackets are balanced
Tidy == pc # "format" =>
          /\ \A k \in 1..Len(toks) : toks[k] = LP => k + 2 <= Len(toks) /\ toks[k + 1][1] = "prim" /\ toks[k + 2] # RP
          /\ Len(SelectSeq(toks, LAMBDA t : t = LP)) = Len(SelectSeq(toks, LAMBDA t : t = RP))
          /\ Len(SelectSeq(toks, LAMBDA t : t = LB)) = Len(SelectSeq(toks, LAMBDA t : t = RB))
=============================================================================
