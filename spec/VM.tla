-------------------------------- MODULE VM --------------------------------
(* The Michelson interpreter as a state machine: one action = one top-level instruction
   executed on the current stack (nested bodies are evaluated inside the big-step Run).
   Exec(i) is enabled only when i is well-typed on the current type stack, so every
   behaviour is a well-typed straight-line program (with arbitrary nested bodies inside
   its compound instructions) together with its run.  The instruction alphabet, initial
   stacks and environments of a *family* are supplied by a generated wrapper module. *)
EXTENDS MichSem
CONSTANTS Fams,            \* names of the instruction families explored in this run
          AlphabetOf(_),   \* family -> set of instructions (compound ones carry their bodies)
          InitsOf(_),      \* family -> set of initial stacks of typed slots
          EnvsOf(_),       \* family -> set of environments (records: instruction name -> value)
          DepthOf(_), MaxStackOf(_), Fuel

VARIABLES fam, init, env, stack, tstack, status, failv, hist
vars == <<fam, init, env, stack, tstack, status, failv, hist>>

Init == /\ fam \in Fams /\ init \in InitsOf(fam) /\ env \in EnvsOf(fam)
        /\ stack = init /\ tstack = TypesOf(init)
        /\ status = "running" /\ failv = <<>> /\ hist = <<>>

Exec(i) ==
  /\ status = "running" /\ Len(hist) < DepthOf(fam)
  /\ LET ty == Ty(i, tstack) IN
       /\ ~IsIll(ty)
       /\ IsFailed(ty) \/ Len(ty) <= MaxStackOf(fam)
       /\ LET r == Run(i, stack, env, Fuel) IN
            /\ r # Err("fuel") /\ r # Err("native") /\ r # Err("symbolic")     \* bounded model: runs that exhaust the loop fuel or the native integer range are not behaviours
            /\ status' = (IF r[1] = "ok" THEN "running" ELSE r[1])
            /\ stack' = (IF r[1] = "ok" THEN r[2] ELSE stack)
            /\ tstack' = (IF r[1] = "ok" THEN ty ELSE tstack)
            /\ failv' = (IF r[1] = "ok" THEN <<>> ELSE r[2])
            /\ hist' = Append(hist, i)
  /\ UNCHANGED <<fam, init, env>>
Next == \E i \in AlphabetOf(fam) : Exec(i)
Spec == Init /\ [][Next]_vars

\* C02 on the reference semantics: every slot has its static type
TypePreservation == status = "running" => /\ TypesOf(stack) = tstack
                                          /\ SlotsOK(stack)
\* a statically failing instruction really fails, an ok run never has the Failed type
FailConsistent == status = "running" => ~IsFailed(tstack)
\* C14: every set / map anywhere on the stack is strictly sorted (part of SlotsOK); C20 below
RECURSIVE Tickets(_, _)
Tickets(t, v) ==    \* sequence of ticket values inside a value
  CASE t[1] = "ticket" -> <<v>>
    [] t[1] = "pair" -> Tickets(t[2], v[2]) \o Tickets(t[3], v[3])
    [] t[1] = "option" -> IF v[1] = "none" THEN <<>> ELSE Tickets(t[2], v[2])
    [] t[1] = "or" -> IF v[1] = "l" THEN Tickets(t[2], v[2]) ELSE Tickets(t[3], v[2])
    [] t[1] = "list" -> LET RECURSIVE F(_) F(s) == IF s = <<>> THEN <<>> ELSE Tickets(t[2], Head(s)) \o F(Tail(s)) IN F(v[2])
    [] OTHER -> <<>>
RECURSIVE StackTickets(_)
StackTickets(st) == IF st = <<>> THEN <<>> ELSE Tickets(T(Head(st)), V(Head(st))) \o StackTickets(Tail(st))
NoZeroTicket == \A k \in DOMAIN StackTickets(stack) : StackTickets(stack)[k][4] > 0
RECURSIVE SumFor(_, _)
SumFor(tks, key) == IF tks = <<>> THEN 0 ELSE (IF <<Head(tks)[2], Head(tks)[3]>> = key THEN Head(tks)[4] ELSE 0) + SumFor(Tail(tks), key)
Keys(tks) == {<<tks[k][2], tks[k][3]>> : k \in DOMAIN tks}
MintsTicket(i) == i[1] = "TICKET" \/ (i[1] = "SEQ" /\ \E k \in DOMAIN i[2] : i[2][k][1] = "TICKET")
\* the total per (ticketer, contents) grows only by TICKET and shrinks only by DROP-like instructions
TicketConservation ==
  [][ \A key \in Keys(StackTickets(stack')) \cup Keys(StackTickets(stack)) :
        SumFor(StackTickets(stack'), key) > SumFor(StackTickets(stack), key) => MintsTicket(hist'[Len(hist')]) ]_vars
=============================================================================
