----------------------------- MODULE ContractRun -----------------------------
(* The contract-run lifecycle of pytezos (growth of the specification, not a listed property):
     MichelsonProgram.instantiate / begin / execute / end   (src/pytezos/michelson/program.py)
     ParameterSection.from_parameters                        (src/pytezos/michelson/sections/parameter.py)
     ContractCall.interpret -> ContractCallResult            (src/pytezos/contract/call.py, result.py)
   around the instruction semantics of MichSem (Ty / Run), which this module reuses.

   One behaviour = one call of one contract: Init picks the entrypoint name, the argument and
   the initial storage; Instantiate resolves the entrypoint and wraps the argument into the
   full parameter type; Begin pushes `Pair parameter storage`; every Step executes one
   top-level instruction of the code (TLC chooses it, so the behaviours enumerate the
   programs over the family's alphabet together with their runs; the program is `prog`);
   End demands a stack of exactly one `pair (list operation) storage` and returns the
   operations, the new storage and the lazy storage diff.

   Operation values are <<"op", kind, data, nonce>>: the nonce is the number of internal
   operations emitted before it in this run (the RPC's `nonce` field of internal operations).
   Instructions added to the MichSem alphabet:
     <<"EMIT">>      EMIT %ev int                                    (pops the payload)
     <<"DELEG">>     { NONE key_hash ; SET_DELEGATE }
     <<"XFER", m>>   { PUSH key_hash K ; IMPLICIT_ACCOUNT ; PUSH mutez m ; UNIT ; TRANSFER_TOKENS }
     <<"IF_LEFT", bl, br>> is re-interpreted here because its bodies may emit operations.

   Parameter types carry their entrypoint annotations as trees
     <<"leaf", name, type>>   <<"node", name, left, right>>      (name "" = not annotated).

   Families (variable fam; bounds per family from the generated wrapper module):
     main     parameter or (int %a) (string %b), storage int: branching and arithmetic, every entrypoint name / argument
     ops      same contract, alphabet of operation emitters (EMIT, SET_DELEGATE, TRANSFER_TOKENS) and list building
     dflt     or (int %default) (string %b);  nest  or (or %c (string %b) (int %d)) (or (int %a) (string %e));
     rootann  or %top (int %a) (string %b);   plain  parameter int, storage pair int string
     bigmap   storage big_map nat int (the result carries a lazy storage diff allocating the new big_map)
     view     view "v" string int over storage int: instantiate_view / begin / execute_view / ret
   Two deviations of the code are modelled as coded in separately named operators (StepUnchecked,
   DefaultOfAnnotatedRoot); the invariants state what the protocol demands outside them. *)
EXTENDS MichSem, FiniteSets
CONSTANTS Fams,         \* the families explored: a family = one contract (parameter, storage) + the alphabet of its code
          MaxLenOf(_),  \* family -> top-level instructions per program
          MaxStackOf(_),\* family -> stack depth bound
          MaxEmit,      \* internal operations emitted per run
          StuckLen,     \* ill-typed instructions (StepStuck, StepUnchecked) are tried after at most this many instructions
          BadLen,       \* programs longer than this are ended only where a pair (list operation) _ is on top of the stack
          Lenient       \* TRUE: also explore StepUnchecked (deviation of the code, see there)

VARIABLES fam,                     \* the family (contract) of this behaviour
          epname, argv, stov,      \* the call: entrypoint name, argument, initial storage
          phase,                   \* "new" "ready" "running" | "done" "failed" "stuck" "badend" "rejected"
          param,                   \* the full parameter value after Instantiate
          stack, prog,             \* interpreter stack; top-level instructions executed so far
          emitted,                 \* internal operations in emission order
          result,                  \* <<operations, storage, lazy diff>> after a successful End
          failv,                   \* the FAILWITH slot
          illty,                   \* the program is statically ill-typed although its run went through (StepUnchecked)
          deviant                  \* the code resolved the entrypoint differently from the protocol (DefaultOfAnnotatedRoot)
vars == <<fam, epname, argv, stov, phase, param, stack, prog, emitted, result, failv, illty, deviant>>

\* ===== annotated parameter trees and entrypoints =====
Leaf(nm, ty) == <<"leaf", nm, ty>>
Node(nm, lt, rgt) == <<"node", nm, lt, rgt>>
RECURSIVE StripT(_)
StripT(p) == IF p[1] = "leaf" THEN p[3] ELSE TOr(StripT(p[3]), StripT(p[4]))
RECURSIVE EpSet(_, _)       \* the annotated nodes of a tree: <<name, path>>, path = sequence of "l" / "r"
EpSet(p, path) == (IF p[2] # "" THEN {<<p[2], path>>} ELSE {})
                  \cup (IF p[1] = "node" THEN EpSet(p[3], Append(path, "l")) \cup EpSet(p[4], Append(path, "r")) ELSE {})
RECURSIVE SubTree(_, _)
SubTree(p, path) == IF path = <<>> THEN p ELSE SubTree(IF Head(path) = "l" THEN p[3] ELSE p[4], Tail(path))
RECURSIVE WrapV(_, _)       \* the value of the full parameter type standing for `v` sent to the entrypoint at `path`
WrapV(path, v) == IF path = <<>> THEN v ELSE <<Head(path), WrapV(Tail(path), v)>>

\* What the protocol demands (declarative): an entrypoint name denotes the node annotated with it; `default`
\* denotes the whole parameter when nothing is annotated %default; anything else does not exist.
\* (The reserved name `root` is left out of the compared domain.)
Resolve(p, name) ==
  IF \E en \in EpSet(p, <<>>) : en[1] = name THEN <<"ok", (CHOOSE en \in EpSet(p, <<>>) : en[1] = name)[2]>>
  ELSE IF name = "default" THEN <<"ok", <<>>>> ELSE <<"none">>

\* ParameterSection.create_type / from_parameters as coded: a root name first (the annotation of the root if there is
\* one), then the layout of the union.
\* DEVIATION OF THE CODE (genuine defect, modelled as it is; the check reports it as INFO): when the root of the parameter
\* type is annotated (`parameter (or %top ..)`) and nothing is annotated %default, the name `default` is refused, although
\* for the protocol `default` then denotes the whole parameter (it is what a transaction without an entrypoint carries).
RootName(p) == IF p[2] # "" THEN p[2] ELSE IF \E en \in EpSet(p, <<>>) : en[1] = "default" THEN "root" ELSE "default"
ResolveCoded(p, name) ==
  IF name = RootName(p) THEN <<"ok", <<>>>>
  ELSE IF p[1] # "node" THEN <<"none">>
  ELSE IF \E en \in EpSet(p, <<>>) : en[1] = name THEN <<"ok", (CHOOSE en \in EpSet(p, <<>>) : en[1] = name)[2]>>
  ELSE <<"none">>
DefaultOfAnnotatedRoot(p, name) == name = "default" /\ p[2] # "" /\ ~\E en \in EpSet(p, <<>>) : en[1] = "default"

\* ===== the added instructions: typing and execution =====
OpSlot(kind, data, nn) == S(TOp, <<"op", kind, data, nn>>)
RECURSIVE TyC(_, _), TyCS(_, _)
TyCS(body, ts) == IF IsIll(ts) THEN Ill ELSE IF body = <<>> THEN ts ELSE IF IsFailed(ts) THEN Ill
                  ELSE LET r == TyC(Head(body), ts) IN TyCS(Tail(body), r)
TyC(i, ts) ==
  CASE i[1] = "EMIT" -> IF Len(ts) >= 1 /\ ts[1] = TInt THEN <<TOp>> \o Drop(ts, 1) ELSE Ill
    [] i[1] \in {"DELEG", "XFER"} -> <<TOp>> \o ts
    [] i[1] = "IF_LEFT" -> IF Len(ts) >= 1 /\ ts[1][1] = "or"
                           THEN Join(TyCS(i[2], <<ts[1][2]>> \o Drop(ts, 1)), TyCS(i[3], <<ts[1][3]>> \o Drop(ts, 1))) ELSE Ill
    [] i[1] = "FAILWITH" -> IF Len(ts) >= 1 /\ Pushable(ts[1]) THEN Failed ELSE Ill     \* the failure value must be packable
    [] i[1] = "SEQ" -> TyCS(i[2], ts)
    [] OTHER -> Ty(i, ts)
NoEnv == [x \in {} |-> 0]
\* what an interpreter that looks only at the current stack can check before executing i
DynOK(i, st) == CASE i[1] = "IF_LEFT" -> Len(st) >= 1 /\ T(st[1])[1] = "or" [] i[1] = "SEQ" -> TRUE [] OTHER -> ~IsIll(TyC(i, TypesOf(st)))
\* chk: look at the run-time stack before every instruction (FALSE where the static typing already guarantees it)
RECURSIVE Exec(_, _, _, _), ExecSeq(_, _, _, _)      \* -> <<"ok", stack, emitted>> | <<"fail", slot>> | <<"err", <<kind>>>>
ExecSeq(body, st, em, chk) == IF body = <<>> THEN <<"ok", st, em>>
                              ELSE LET r == Exec(Head(body), st, em, chk) IN IF r[1] # "ok" THEN r ELSE ExecSeq(Tail(body), r[2], r[3], chk)
Exec(i, st, em, chk) ==
  IF chk /\ ~DynOK(i, st) THEN Err("stuck")
  ELSE CASE i[1] = "EMIT" -> LET o == OpSlot("event", V(st[1]), Len(em)) IN <<"ok", <<o>> \o Drop(st, 1), Append(em, V(o))>>
         [] i[1] = "DELEG" -> LET o == OpSlot("delegation", <<"none">>, Len(em)) IN <<"ok", <<o>> \o st, Append(em, V(o))>>
         [] i[1] = "XFER" -> LET o == OpSlot("transaction", I(i[2]), Len(em)) IN <<"ok", <<o>> \o st, Append(em, V(o))>>
         [] i[1] = "IF_LEFT" -> LET x == st[1] IN
                                IF V(x)[1] = "l" THEN ExecSeq(i[2], <<S(T(x)[2], V(x)[2])>> \o Drop(st, 1), em, chk)
                                ELSE ExecSeq(i[3], <<S(T(x)[3], V(x)[2])>> \o Drop(st, 1), em, chk)
         [] i[1] = "SEQ" -> ExecSeq(i[2], st, em, chk)
         [] OTHER -> LET r == Run(i, st, NoEnv, 1) IN IF r[1] = "ok" THEN <<"ok", r[2], em>> ELSE r

\* ===== the bounded universe =====
Str(x) == <<"s", <<x>>>>
IfL(bl, br) == <<"IF_LEFT", bl, br>>
PtreeOf(fm) == CASE fm = "rootann" -> Node("top", Leaf("a", TInt), Leaf("b", TStr))
                 [] fm = "dflt" -> Node("", Leaf("default", TInt), Leaf("b", TStr))
                 [] fm = "nest" -> Node("", Node("c", Leaf("b", TStr), Leaf("d", TInt)), Node("", Leaf("a", TInt), Leaf("e", TStr)))
                 [] fm = "plain" -> Leaf("", TInt)
                 [] fm = "view" -> Leaf("", TStr)                                 \* the argument type of the view
                 [] OTHER -> Node("", Leaf("a", TInt), Leaf("b", TStr))           \* "main", "bigmap"
StypeOf(fm) == CASE fm = "plain" -> TPair(TInt, TStr) [] fm = "bigmap" -> TBigMap(TNat, TInt) [] OTHER -> TInt
Ptree == PtreeOf(fam)
Ptype == StripT(Ptree)
Stype == StypeOf(fam)
\* family "view": an on-chain view  view "v" string int { prog }  of a contract with storage int is run instead of the code
\* (instantiate_view / begin / execute_view / ret): the argument takes the place of the parameter, the result is the one
\* item left, of the declared return type; no operations, no new storage
IsView == fam = "view"
RetType == TInt
GoalType == IF IsView THEN RetType ELSE TPair(TList(TOp), Stype)
ResolveD(name) == IF IsView THEN (IF name = "v" THEN <<"ok", <<>>>> ELSE <<"none">>) ELSE Resolve(Ptree, name)
ResolveC(name) == IF IsView THEN (IF name = "v" THEN <<"ok", <<>>>> ELSE <<"none">>) ELSE ResolveCoded(Ptree, name)
MaxLen == MaxLenOf(fam)
MaxStack == MaxStackOf(fam)
RECURSIVE ValsOf(_, _)
ValsOf(t, ints) == CASE t = TInt -> ints [] t = TStr -> {Str(120)} [] t = TNat -> {I(1)}
                     [] t[1] = "or" -> {<<"l", v>> : v \in ValsOf(t[2], ints)} \cup {<<"r", v>> : v \in ValsOf(t[3], ints)}
                     [] t[1] = "pair" -> {<<"p", v, w>> : v \in ValsOf(t[2], ints), w \in ValsOf(t[3], ints)}
                     [] t[1] = "big_map" -> {<<"map", <<>>>>, <<"map", << <<I(1), I(7)>> >> >>}
BadVal(t) == IF t = TStr THEN I(2) ELSE Str(120)                                 \* a value that does not have type t
\* the families that vary the code rather than the call: only the entrypoints a and b, one argument each
Lean == fam \in {"ops", "bigmap"}
EpNames == IF IsView THEN {"v", "zz"} ELSE IF Lean THEN {"a", "b"} ELSE {en[1] : en \in EpSet(Ptree, <<>>)} \cup {"default", "zz"}
ArgsOf(name) == LET rs == ResolveD(name) IN
                IF rs[1] = "none" THEN {<<"unit">>}
                ELSE LET t == StripT(SubTree(Ptree, rs[2])) IN
                     IF Lean THEN ValsOf(t, {I(2)}) ELSE ValsOf(t, {I(2), I(-3)}) \cup {BadVal(t)}
StoVals == IF Stype = TInt THEN {I(5)} ELSE ValsOf(Stype, {I(2)})

UpdK(k, ov) == <<"SEQ", << <<"PUSH", TOpt(TInt), ov>>, <<"PUSH", TNat, I(k)>>, <<"UPDATEK">> >> >>
Dr == <<"DROP", 1>>
Plain == {<<"CAR">>, <<"CDR">>, <<"UNPAIR", 2>>, <<"PAIR", 2>>, <<"SWAP">>, <<"NIL", TOp>>, Dr, <<"FAILWITH">>}
Arith == {<<"PUSH", TInt, I(1)>>, <<"ADD">>}
BodiesOf(fm) ==
  CASE fm = "nest" -> {<<>>, <<Dr>>, << <<"FAILWITH">> >>, << IfL(<<Dr>>, << <<"ADD">> >>) >>, << IfL(<< <<"ADD">> >>, <<Dr>>) >>,
                       << IfL(<< <<"FAILWITH">> >>, << <<"ADD">> >>) >>}
    [] fm = "bigmap" -> {<<>>, <<Dr>>, << <<"FAILWITH">> >>, <<Dr, UpdK(1, <<"none">>)>>,
                         << <<"SOME">>, <<"PUSH", TNat, I(2)>>, <<"UPDATEK">> >>}
    [] fm = "ops" -> {<< <<"FAILWITH">> >>, << <<"EMIT">> >>, <<Dr, <<"DELEG">> >>}
    [] OTHER -> {<<>>, <<Dr>>, << <<"ADD">> >>, << <<"FAILWITH">> >>, <<Dr, <<"PUSH", TInt, I(1)>> >>}
IfLefts(fm) == {IfL(bl, br) : bl \in BodiesOf(fm), br \in BodiesOf(fm)}
AlphabetOf(fm) ==
  CASE fm = "plain" -> Plain \cup {<<"CONS">>, <<"PUSH", TStr, Str(121)>>, <<"DELEG">>}
    [] fm = "view" -> (Plain \ {<<"NIL", TOp>>}) \cup Arith
    [] fm = "bigmap" -> Plain \cup {UpdK(1, <<"some", I(4)>>), UpdK(1, <<"none">>), UpdK(2, <<"none">>)} \cup IfLefts(fm)
    [] fm = "ops" -> {<<"CDR">>, <<"UNPAIR", 2>>, <<"PAIR", 2>>, <<"SWAP">>, <<"NIL", TOp>>, <<"CONS">>, <<"DELEG">>, <<"XFER", 3>>,
                      <<"SEQ", << <<"PUSH", TInt, I(7)>>, <<"EMIT">> >> >>,
                      \* emit and prepend to the list below in one top-level instruction
                      <<"SEQ", << <<"DELEG">>, <<"CONS">> >> >>, <<"SEQ", << <<"XFER", 3>>, <<"CONS">> >> >>,
                      <<"SEQ", << <<"PUSH", TInt, I(7)>>, <<"EMIT">>, <<"CONS">> >> >>} \cup IfLefts(fm)
    [] fm = "nest" -> Plain \cup {<<"ADD">>, <<"CONS">>} \cup IfLefts(fm)
    [] OTHER -> Plain \cup Arith \cup IfLefts(fm)
Alphabet == AlphabetOf(fam)
\* instructions also tried where they are ill-typed (the run gets stuck there)
StuckAlphabet == {<<"CAR">>, <<"SWAP">>, <<"CONS">>, <<"ADD">>, <<"PAIR", 2>>}

\* ===== the lifecycle =====
Init == /\ fam \in Fams /\ epname \in EpNames /\ argv \in ArgsOf(epname) /\ stov \in StoVals
        /\ phase = "new" /\ param = <<>> /\ stack = <<>> /\ prog = <<>> /\ emitted = <<>>
        /\ result = <<>> /\ failv = <<>> /\ illty = FALSE /\ deviant = FALSE

\* MichelsonProgram.instantiate (ParameterSection.from_parameters + StorageSection.from_micheline_value) / instantiate_view
Instantiate ==
  /\ phase = "new"
  /\ LET rs == ResolveC(epname) IN
     IF rs[1] = "ok" /\ HasType(argv, StripT(SubTree(Ptree, rs[2]))) /\ HasType(stov, Stype)
     THEN param' = WrapV(rs[2], argv) /\ phase' = "ready"
     ELSE param' = <<>> /\ phase' = "rejected"
  /\ deviant' = (ResolveC(epname) # ResolveD(epname))
  /\ UNCHANGED <<fam, epname, argv, stov, stack, prog, emitted, result, failv, illty>>

\* MichelsonProgram.begin: push `Pair parameter storage`
BeginStack == << S(TPair(Ptype, Stype), <<"p", param, stov>>) >>
Begin == /\ phase = "ready" /\ stack' = BeginStack /\ phase' = "running"
         /\ UNCHANGED <<fam, epname, argv, stov, param, prog, emitted, result, failv, illty, deviant>>

Taken(i, r) ==
  /\ r # Err("native") /\ r # Err("fuel")
  /\ prog' = Append(prog, i)
  /\ phase' = (CASE r[1] = "ok" -> "running" [] r[1] = "fail" -> "failed" [] OTHER -> "stuck")
  /\ stack' = (IF r[1] = "ok" THEN r[2] ELSE stack)
  /\ emitted' = (IF r[1] = "ok" THEN r[3] ELSE emitted)
  /\ failv' = (IF r[1] = "fail" THEN r[2] ELSE failv)
  /\ UNCHANGED <<fam, epname, argv, stov, param, result, deviant>>

\* a lower bound on the number of top-level instructions still needed to end properly (every instruction of the alphabets
\* shrinks the stack by at most one item, and an operation list comes from NIL or out of a pair): programs that cannot be
\* completed within MaxLen are not continued (a bound of the universe; failures of their prefixes are still behaviours)
RECURSIVE HasOpList(_)
HasOpList(t) == t = TList(TOp) \/ (t[1] = "pair" /\ (HasOpList(t[2]) \/ HasOpList(t[3])))
Proper(st) == Len(st) = 1 /\ T(st[1]) = GoalType
ToGo(st) == IF Proper(st) THEN 0
            ELSE IF IsView THEN (IF Len(st) > 2 THEN Len(st) - 1 ELSE 1)
            ELSE IF \E k \in DOMAIN st : HasOpList(T(st[k])) THEN (IF Len(st) > 2 THEN Len(st) - 1 ELSE 1)
            ELSE Len(st) + 1
Need(i) == CASE i[1] \in {"SWAP", "CONS", "ADD", "PAIR"} -> 2
             [] i[1] \in {"CAR", "CDR", "UNPAIR", "DROP", "FAILWITH", "EMIT", "IF_LEFT"} -> 1 [] OTHER -> 0
\* MichelsonProgram.execute, one top-level instruction that is well-typed on the current stack
Step(i) ==
  /\ phase = "running" /\ Len(prog) < MaxLen
  /\ Len(stack) >= Need(i)
  /\ i[1] = "IF_LEFT" => T(stack[1])[1] = "or"
  /\ i[1] \in {"CAR", "CDR", "UNPAIR"} => T(stack[1])[1] = "pair"
  /\ LET ty == TyC(i, TypesOf(stack))  r == Exec(i, stack, emitted, FALSE) IN
       /\ ~IsIll(ty)
       /\ IsFailed(ty) \/ Len(ty) <= MaxStack
       /\ r[1] = "ok" => Len(r[3]) <= MaxEmit /\ ToGo(r[2]) <= MaxLen - Len(prog) - 1
       /\ Taken(i, r) /\ UNCHANGED illty
\* ... and one that is not: the run stops with a type error
StepStuck(i) ==
  /\ phase = "running" /\ Len(prog) < MaxLen /\ Len(prog) <= StuckLen /\ i[1] # "IF_LEFT"
  /\ IsIll(TyC(i, TypesOf(stack)))
  /\ Taken(i, Exec(i, stack, emitted, TRUE)) /\ UNCHANGED illty
\* DEVIATION OF THE CODE (modelled as it is, reported as INFO by the check): the interpreter never type-checks the
\* script, it only checks each instruction against the run-time stack.  An IF_LEFT whose branches do not have the
\* same result type, or whose other branch is ill-typed, makes the contract ill-typed for the protocol (origination
\* and run_code reject it) but runs here, along the branch the parameter selects.
StepUnchecked(i) ==
  /\ Lenient /\ phase = "running" /\ Len(prog) < MaxLen /\ Len(prog) <= StuckLen /\ i[1] = "IF_LEFT" /\ ~illty
  /\ Len(stack) >= 1 /\ T(stack[1])[1] = "or"
  /\ IsIll(TyC(i, TypesOf(stack)))
  /\ LET r == Exec(i, stack, emitted, TRUE) IN
       /\ r[1] \in {"ok", "fail"}
       /\ r[1] = "ok" => Len(r[2]) <= MaxStack /\ Len(r[3]) <= MaxEmit /\ ToGo(r[2]) <= MaxLen - Len(prog) - 1
       /\ Taken(i, r) /\ illty' = TRUE

\* MichelsonProgram.end: pop one item, the stack must then be empty, the item must be `pair (list operation) storage`
LazyDiff(sv) == IF Stype[1] = "big_map" THEN << <<"big_map", "alloc", sv[2]>> >> ELSE <<>>
EndsProperly == Len(stack) >= 1 /\ Len(Tail(stack)) = 0 /\ T(stack[1]) = GoalType      \* pop1, then empty, then the type
End ==
  \* (longer programs are ended only where the top item is a pair of an operation list and something: the proper end,
  \*  items left over below it, or a new storage of the wrong type)
  /\ phase = "running"
  /\ \/ Len(prog) <= BadLen
     \/ Len(stack) >= 1 /\ T(stack[1]) = GoalType
     \/ Len(stack) >= 1 /\ T(stack[1])[1] = "pair" /\ T(stack[1])[2] = TList(TOp)
  /\ IF EndsProperly
     THEN /\ phase' = "done"
          /\ result' = (IF IsView THEN <<<<>>, V(stack[1]), <<>>>>          \* MichelsonProgram.ret: the value alone
                         ELSE <<V(stack[1])[2][2], V(stack[1])[3], LazyDiff(V(stack[1])[3])>>)
     ELSE /\ phase' = "badend" /\ result' = <<>>
  /\ UNCHANGED <<fam, epname, argv, stov, param, stack, prog, emitted, failv, illty, deviant>>

DoStep == \E i \in Alphabet : Step(i)
DoStepStuck == \E i \in StuckAlphabet \cap Alphabet : StepStuck(i)
DoStepUnchecked == \E i \in Alphabet : StepUnchecked(i)
Next == Instantiate \/ Begin \/ DoStep \/ DoStepStuck \/ DoStepUnchecked \/ End
Spec == Init /\ [][Next]_vars

\* ===== what a user relies on =====
Terminal == {"done", "failed", "stuck", "badend", "rejected"}
\* entrypoints: the call is accepted iff the entrypoint exists and the argument has its type, and then it is the
\* call of the whole parameter with the argument wrapped into the Left/Right path of the entrypoint
\* (so calling %a with v and calling default with (Left v) are the same run)
EntrypointIsWrapping ==
  LET rs == ResolveD(epname) IN
  ~deviant =>
  /\ phase = "rejected" <=> (phase # "new" /\ (rs[1] = "none" \/ ~HasType(argv, StripT(SubTree(Ptree, rs[2])))))
  /\ phase \notin {"new", "rejected"} => param = WrapV(rs[2], argv) /\ HasType(param, Ptype)
\* the only place where the code's resolution differs from the protocol's is the named defect
OnlyNamedDeviation == /\ deviant <=> (phase # "new" /\ ~IsView /\ DefaultOfAnnotatedRoot(Ptree, epname))
                      /\ deviant => phase = "rejected"
\* the top-level steps agree with the big-step run of the whole program from the initial stack
Whole == ExecSeq(prog, BeginStack, <<>>, TRUE)
StepwiseIsWhole ==
  /\ phase = "running" => Whole = <<"ok", stack, emitted>>
  /\ phase = "failed" => Whole = <<"fail", failv>>
  /\ phase = "stuck" => Whole = Err("stuck")
\* a well-typed program keeps every slot at its static type and never gets stuck except at the last (ill-typed) step
TypeSafe == phase = "running" /\ ~illty => SlotsOK(stack) /\ TypesOf(stack) = TyCS(prog, <<TPair(Ptype, Stype)>>)
\* the result: storage of the storage type; the operations are those emitted, each listed at most once, in the order
\* of the list the code returned, their nonces being their emission rank
RECURSIVE OpsIn(_, _)       \* operations inside a value
OpsIn(t, v) == CASE t = TOp -> <<v>>
                 [] t[1] = "pair" -> OpsIn(t[2], v[2]) \o OpsIn(t[3], v[3])
                 [] t[1] = "list" -> LET RECURSIVE F(_) F(sq) == IF sq = <<>> THEN <<>> ELSE OpsIn(t[2], Head(sq)) \o F(Tail(sq)) IN F(v[2])
                 [] OTHER -> <<>>
RECURSIVE StackOps(_)
StackOps(st) == IF st = <<>> THEN <<>> ELSE OpsIn(T(Head(st)), V(Head(st))) \o StackOps(Tail(st))
NoncesAreEmissionRanks ==
  /\ \A k \in DOMAIN emitted : emitted[k][4] = k - 1
  /\ phase = "running" => LET os == StackOps(stack) IN
                            /\ \A k \in DOMAIN os : os[k] = emitted[os[k][4] + 1]
                            /\ \A k, m \in DOMAIN os : k # m => os[k] # os[m]
ResultOK ==
  phase = "done" =>
    /\ HasType(result[2], IF IsView THEN RetType ELSE Stype)
    /\ \A k \in DOMAIN result[1] : result[1][k] = emitted[result[1][k][4] + 1]
    /\ \A k, m \in DOMAIN result[1] : k # m => result[1][k][4] # result[1][m][4]
    /\ Len(result[1]) <= Len(emitted)
    /\ Stype[1] = "big_map" <=> result[3] # <<>>
\* success iff the whole program runs and leaves exactly the result pair; a failing run returns nothing
DoneIff ==
  /\ phase = "done" <=> (result # <<>>)
  /\ phase = "done" => Whole = <<"ok", << S(GoalType, IF IsView THEN result[2] ELSE <<"p", <<"list", result[1]>>, result[2]>>) >>, emitted>>
  /\ phase = "badend" => Whole[1] = "ok" /\ (Len(Whole[2]) # 1 \/ T(Whole[2][1]) # GoalType)
\* for the protocol a contract is well-typed iff its code maps <<pair parameter storage>> to <<pair (list operation) storage>>
\* (a view: <<pair argument storage>> to <<return type>>)
WellTypedContract == LET ty == TyCS(prog, <<TPair(Ptype, Stype)>>) IN IsFailed(ty) \/ ty = <<GoalType>>
DoneMeansWellTyped == phase = "done" /\ ~illty => WellTypedContract
UncheckedMeansIllTyped == illty => IsIll(TyCS(prog, <<TPair(Ptype, Stype)>>))
=============================================================================
