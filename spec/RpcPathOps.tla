------------------------------ MODULE RpcPathOps ------------------------------
(* Lookups by hash that sit on top of the path algebra (growth of the specification):
     mode "ops"   OperationListListQuery.__getitem__   (protocol.py)  index / (pass, index) / operation hash / the four pass names
     mode "prop"  ProposalsQuery.__getitem__ + ProposalQuery.__call__  (protocol.py)
     mode "pend"  PendingOperationsQuery.__getitem__   (shell.py)
     mode "flat"  PendingOperationsQuery.flatten       (shell.py)
   One action per request and per loop iteration of the code. *)
EXTENDS Integers, Sequences, FiniteSets, TLC
CONSTANTS NP,          \* number of validation passes of a block
          OpIds,       \* operation hashes that may be on chain / in the mempool (integers)
          Missing,     \* an operation hash that is nowhere
          Pids,        \* proposal hashes
          Rolls,       \* roll counts
          AsCoded      \* TRUE: the defect below is modelled as the code has it; FALSE: as intended (to try a patch)
VARIABLES mode, content, arg, pc, i, log, res
vars == <<mode, content, arg, pc, i, log, res>>

None == <<"none">>
SeqToSet(s) == {s[k] : k \in DOMAIN s}
RECURSIVE Asc(_)
Asc(S) == IF S = {} THEN <<>> ELSE LET m == CHOOSE x \in S : \A y \in S : x <= y IN <<m>> \o Asc(S \ {m})
Rev(s) == [k \in 1..Len(s) |-> s[Len(s) - k + 1]]
RECURSIVE Flatten(_)
Flatten(ss) == IF ss = <<>> THEN <<>> ELSE LET r == Flatten(Tail(ss)) IN Head(ss) \o r

\* ---- universes
\* a block: every operation is in one pass or absent (0); inside a pass the order is ascending or descending
Blocks == {[p \in 1..NP |-> IF d THEN Rev(Asc({o \in OpIds : f[o] = p})) ELSE Asc({o \in OpIds : f[o] = p})] :
             f \in [OpIds -> 0..NP], d \in BOOLEAN}
PassNames == <<"endorsements", "votes", "anonymous", "managers">>
OpsArgs == {<<"int", 0>>, <<"int", 3>>, <<"pair", 0, 0>>, <<"pair", 3, 1>>, <<"str", "x1">>}
             \cup {<<"ogh", o>> : o \in OpIds \cup {Missing}} \cup {<<"name", k>> : k \in 1..4}
\* the proposals of a voting period: <<proposal, rolls>>, every proposal listed at most once
Listings == {<<>>} \cup {<< <<p, r>> >> : p \in Pids, r \in Rolls}
              \cup {l \in {<< <<p, r>>, <<q, s>> >> : p \in Pids, q \in Pids, r \in Rolls, s \in Rolls} : l[1][1] # l[2][1]}
\* the mempool: status -> operations; an operation is reported as a record ("dict") or in the old pair form ("list")
Statuses == <<"applied", "refused">>
Entry == {<<o, f>> : o \in OpIds, f \in {"dict", "list"}}
Lists == {<<>>} \cup {<<e>> : e \in Entry} \cup {<<e, g>> : e \in Entry, g \in Entry}
Pools == {<<a, b>> : a \in Lists, b \in Lists}
PoolOK(m) == LET all == m[1] \o m[2] IN Cardinality({all[k][1] : k \in DOMAIN all}) = Len(all)     \* a hash is listed once
\* the operations in the order the answer lists them, with their status
Scan(m) == [k \in 1..Len(m[1]) |-> <<Statuses[1], m[1][k]>>] \o [k \in 1..Len(m[2]) |-> <<Statuses[2], m[2][k]>>]

Init == /\ pc = "start" /\ i = 0 /\ log = <<>> /\ res = None
        /\ \/ mode = "ops" /\ content \in Blocks /\ arg \in OpsArgs
           \/ mode = "prop" /\ content \in Listings /\ arg \in {<<"pid", p>> : p \in Pids}
           \/ mode \in {"pend", "flat"} /\ content \in Pools /\ PoolOK(content) = TRUE
              /\ arg \in (IF mode = "pend" THEN {<<"ogh", o>> : o \in OpIds \cup {Missing}} ELSE {None})
Finish(r) == res' = r /\ pc' = "done"

\* ---- OperationListListQuery.__getitem__
OpsDirect ==
  /\ mode = "ops" /\ pc = "start" /\ arg[1] # "ogh"
  /\ Finish(CASE arg[1] = "int" -> <<"path", <<arg[2]>>, "RpcQuery">>
              [] arg[1] = "pair" -> <<"path", <<arg[2], arg[3]>>, "OperationQuery">>        \* self[i][j]
              [] arg[1] = "str" -> <<"path", <<arg[2]>>, "RpcQuery">>
              [] arg[1] = "name" -> <<"path", <<arg[2] - 1>>, "RpcQuery">>)
  /\ UNCHANGED <<mode, content, arg, i, log>>
OpsFetch ==          \* operation_hashes = self._parent.operation_hashes()
  /\ mode = "ops" /\ pc = "start" /\ arg[1] = "ogh"
  /\ log' = Append(log, <<"operation_hashes">>) /\ pc' = "scan" /\ i' = 1
  /\ UNCHANGED <<mode, content, arg, res>>
Pos(s, x) == CHOOSE k \in DOMAIN s : s[k] = x
OpsScan ==           \* one validation pass per step
  /\ mode = "ops" /\ pc = "scan"
  /\ IF i > NP THEN Finish(<<"error", "StopIteration">>) /\ UNCHANGED i
     ELSE IF arg[2] \in SeqToSet(content[i])
          THEN Finish(<<"path", <<i - 1, Pos(content[i], arg[2]) - 1>>, "OperationQuery">>) /\ UNCHANGED i
          ELSE i' = i + 1 /\ UNCHANGED <<pc, res>>
  /\ UNCHANGED <<mode, content, arg, log>>

\* ---- ProposalsQuery[pid]()
PropItem ==
  /\ mode = "prop" /\ pc = "start" /\ pc' = "query" /\ res' = <<"path", <<arg[2]>>, "ProposalQuery">>
  /\ UNCHANGED <<mode, content, arg, i, log>>
PropCall ==          \* proposals = self._parent(); first listing of the proposal, 0 if it is not listed
  /\ mode = "prop" /\ pc = "query"
  /\ log' = Append(log, <<"proposals">>)
  /\ LET hits == SelectSeq(content, LAMBDA e : e[1] = arg[2]) IN
       Finish(<<"rolls", IF hits = <<>> THEN 0 ELSE hits[1][2]>>)
  /\ UNCHANGED <<mode, content, arg, i>>

\* ---- PendingOperationsQuery
PendFetch ==
  /\ mode \in {"pend", "flat"} /\ pc = "start"
  /\ log' = Append(log, <<"pending_operations">>) /\ pc' = "scan" /\ i' = 1
  /\ res' = (IF mode = "flat" THEN <<"all", <<>>>> ELSE res)
  /\ UNCHANGED <<mode, content, arg>>
\* DEVIATION (as coded) - a defect: in __getitem__ the branch for the pair form calls `operation[1].pop1('error', default=[])`;
\* dict has no pop1, so finding an operation that the node reports in the pair form raises AttributeError.
\* flatten() has the intended `operation[1].pop('error', [])`.
PairFormLookupAsCoded == <<"error", "AttributeError">>
PendScan ==
  /\ mode = "pend" /\ pc = "scan"
  /\ LET s == Scan(content) IN
     IF i > Len(s) THEN Finish(<<"error", "StopIteration">>) /\ UNCHANGED i
     ELSE IF s[i][2][1] = arg[2]
          THEN Finish(IF s[i][2][2] = "dict" \/ ~AsCoded THEN <<"found", s[i][1], arg[2]>> ELSE PairFormLookupAsCoded) /\ UNCHANGED i
          ELSE i' = i + 1 /\ UNCHANGED <<pc, res>>
  /\ UNCHANGED <<mode, content, arg, log>>
FlatScan ==
  /\ mode = "flat" /\ pc = "scan"
  /\ LET s == Scan(content) IN
     IF i > Len(s) THEN pc' = "done" /\ UNCHANGED <<i, res>>
     ELSE res' = <<"all", Append(res[2], <<s[i][1], s[i][2][1]>>)>> /\ i' = i + 1 /\ UNCHANGED pc
  /\ UNCHANGED <<mode, content, arg, log>>
Next == OpsDirect \/ OpsFetch \/ OpsScan \/ PropItem \/ PropCall \/ PendFetch \/ PendScan \/ FlatScan
Spec == Init /\ [][Next]_vars

\* ---------------------------------------------------------------- properties
Done == pc = "done"
Where(o) == {w \in (1..NP) \X (1..Cardinality(OpIds)) : w[2] <= Len(content[w[1]]) /\ content[w[1]][w[2]] = o}
\* an operation hash resolves to the place where the block lists it (0-based pass and index), after exactly one look at the block's hashes
HashResolves == (Done /\ mode = "ops" /\ arg[1] = "ogh") =>
  /\ log = << <<"operation_hashes">> >>
  /\ IF Where(arg[2]) = {} THEN res = <<"error", "StopIteration">>
     ELSE \E w \in Where(arg[2]) : res = <<"path", <<w[1] - 1, w[2] - 1>>, "OperationQuery">>
\* the other forms need no request; a pair addresses one operation, the pass names are the passes 0..3
DirectForms == (Done /\ mode = "ops" /\ arg[1] # "ogh") =>
  /\ log = <<>>
  /\ arg[1] = "pair" => res = <<"path", <<arg[2], arg[3]>>, "OperationQuery">>
  /\ arg[1] = "name" => res[2] = <<arg[2] - 1>>
\* the roll count of a proposal is the one listed for it, 0 if it is not listed; the list is requested, not the proposal
RollsOfListing == (Done /\ mode = "prop") =>
  /\ log = << <<"proposals">> >>
  /\ \/ \E k \in DOMAIN content : content[k][1] = arg[2] /\ res = <<"rolls", content[k][2]>>
     \/ (\A k \in DOMAIN content : content[k][1] # arg[2]) /\ res = <<"rolls", 0>>
\* a pending operation is found with the status it is listed under; one that is not listed is not found
InPool(o) == \E k \in DOMAIN Scan(content) : Scan(content)[k][2][1] = o
PendingFound == (Done /\ mode = "pend") =>
  /\ log = << <<"pending_operations">> >>
  /\ ~InPool(arg[2]) => res = <<"error", "StopIteration">>
  /\ InPool(arg[2]) => LET k == CHOOSE k \in DOMAIN Scan(content) : Scan(content)[k][2][1] = arg[2] IN
       \/ res = <<"found", Scan(content)[k][1], arg[2]>>
       \/ AsCoded /\ Scan(content)[k][2][2] = "list" /\ res = PairFormLookupAsCoded          \* the deviation, pinned
\* flatten lists every pending operation once, with its status, in the node's order
FlattenComplete == (Done /\ mode = "flat") =>
  /\ log = << <<"pending_operations">> >>
  /\ res = <<"all", [k \in DOMAIN Scan(content) |-> <<Scan(content)[k][1], Scan(content)[k][2][1]>>]>>
=============================================================================
