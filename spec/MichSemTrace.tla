--------------------------- MODULE MichSemTrace ---------------------------
(* Leg C for the interpreter properties: instruction events recorded by the pytezos hook
   (PYTEZOS_VERIF_TRACE) are checked against the reference semantics: for each event,
   Run(instr, before) must be exactly the recorded `after` stack (types and values of all
   visible slots), a recorded failure must be a failure of the model, and the instruction
   must be well-typed on the recorded type stack with the recorded result types. *)
EXTENDS MichSem, Json, IOUtils, TLCExt
TraceLog == ndJsonDeserialize(IOEnv.TRACE_FILE)
VARIABLE l
NoEnv == [x \in {} |-> 0]
Init == l = 1 /\ TLCSet(1, 0)
Reject(e, clause, got) == PrintT(<<"REJECT", e.id, clause, got>>) /\ TLCSet(1, TLCGet(1) + 1)
Step == /\ l <= Len(TraceLog)
        /\ LET e == TraceLog[l]
               ty == Ty(e.instr, TypesOf(e.before))
               r == Run(e.instr, e.before, NoEnv, 50) IN
           IF ~SlotsOK(e.before) THEN Reject(e, "before-illtyped", TypesOf(e.before))
           ELSE IF IsIll(ty) THEN Reject(e, "illtyped", ty)
           ELSE IF r = Err("native") \/ r = Err("symbolic") THEN TRUE
           ELSE IF e.status = "ok"
                THEN IF r = <<"ok", e.after>> THEN (IF TypesOf(e.after) = ty THEN TRUE ELSE Reject(e, "static-type", ty))
                     ELSE Reject(e, "result", r)
                ELSE IF r[1] # "ok" THEN TRUE ELSE Reject(e, "should-fail", r)
        /\ l' = l + 1
Spec == Init /\ [][Step]_l
Accepted == TLCGet(1) = 0
=============================================================================
