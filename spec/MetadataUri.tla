----------------------------- MODULE MetadataUri -----------------------------
(* TZIP-16 contract metadata resolution: ContractInterface.metadata_url / .metadata
   (src/pytezos/contract/interface.py) and ContractMetadata.from_url / from_ipfs / from_json
   (src/pytezos/contract/metadata.py).  Growth of the specification (not a listed property).

   The chain  contract storage -> big_map %metadata -> key "" -> URI -> document -> JSON -> schema
   is modelled as the code's steps: one action per step of the resolver (read the URI, split the
   scheme, dispatch, split the authority, split host and network, one percent-decoding step per
   character of the key, look up / fetch, verify the hashes, parse, validate), and a second
   access of the (cached) property.

   The universe is built *generatively*: Init picks an INTENT - what the author of the contract
   wants the URI to denote (key k of contract h on network n; an http(s) URL; an IPFS path; a
   sha256 wrapper around another intent; or a text outside the grammar) - the text of the URI is
   produced from the intent by the TZIP-16 grammar (TextOf, with the key percent-encoded in one of
   several styles), and the resolver automaton has to find its way back from the text alone.  The
   invariants are stated on the intent, without any parsing: the document obtained is the one the
   intent denotes in the simulated world (storage of two contracts, http documents, IPFS
   documents; every location holds a different document, so that a read from a wrong location is
   visible), or an error where the intent denotes none.

   Where pytezos deviates from the TZIP-16 reading, the behaviour AS CODED is a separate action
   named ...AsCoded, enabled by the name of the deviation in `devs` (one of DevChoices, picked by
   Init); each records itself in `taken` when (and only when) its effect differs from the intended
   step's.  With devs = {} the spec is the intended resolver.

   Texts are sequences of character codes. *)
EXTENDS Integers, Sequences, FiniteSets, TLC

CONSTANTS Self, Other, Ghost,        \* contract addresses (texts); Ghost is not on the chain
          ChainId, OtherChain,       \* network identifiers (texts); the node is on ChainId
          Keys,                      \* the keys (texts, NOT encoded) present in both contracts' %metadata big_maps
          WebUrls,                   \* http(s) URLs that serve a document
          Cids, IpfsPaths,           \* IPFS: content identifiers, and paths below them ("" or "/...")
          DefaultGateway, Gateways,  \* Gateways: set of <<route, text>>, route "default" | "client" | "contract"
          RawUris,                   \* texts that are no URI of a supported scheme
          Styles, ShaStyles,         \* percent-encoding styles used by the author of the URI: "min" | "lower" | "all" (ShaStyles: of the inner URI of sha256)
          Layouts, ProbeOnly,        \* storage layouts of Self; when ProbeOnly, non-"top" layouts are combined with few intents only
          MaxNest,                   \* nesting depth of sha256 URIs
          DevChoices, Replayed,      \* the sets of named deviations to explore (Init picks one); behaviours under Replayed are exported
          BadHash,
          ErrJsonValid,              \* does the JSON body of the simulated error response satisfy the schema of the document (only matters AS CODED)
          HashOf(_)                  \* body token -> text of its SHA-256 in hexadecimal

VARIABLES intent, layout, fault, gw, block, devs,                         \* the world, the block the contract interface is bound to
                                                                          \* ("head" | "past") and the resolver's deviations (never change)
          pc, round, url, cur, text, scheme, auth, contract, key, dfor,   \* the resolver
          pending, body, result, first, mark,
          lookups, fetched, asked, blocks,                                \* what crossed the boundary (blocks: at which the chain was read)
          taken                                                           \* deviations that made a difference
world == <<intent, layout, fault, gw, block, devs>>
parse == <<cur, text, scheme, auth, contract, key, dfor, pending, body>>
io == <<lookups, fetched, asked, blocks>>
vars == <<world, pc, round, url, parse, result, first, mark, io, taken>>

\* ----------------------------------------------------------------- characters and texts
Colon == 58  Slash == 47  Percent == 37  Dot == 46  Zero == 48  LowerX == 120
TS == <<116, 101, 122, 111, 115, 45, 115, 116, 111, 114, 97, 103, 101>>      \* "tezos-storage"
HTTP == <<104, 116, 116, 112>>
HTTPS == <<104, 116, 116, 112, 115>>
IPFS == <<105, 112, 102, 115>>
SHA == <<115, 104, 97, 50, 53, 54>>                                          \* "sha256"
NoUrl == <<-1>>

HexDigit(n, lower) == IF n < 10 THEN 48 + n ELSE (IF lower THEN 87 ELSE 55) + n
HexVal(c) == IF c >= 48 /\ c <= 57 THEN c - 48 ELSE IF c >= 65 /\ c <= 70 THEN c - 55 ELSE IF c >= 97 /\ c <= 102 THEN c - 87 ELSE -1
IndexOf(t, c) == IF \E i \in DOMAIN t : t[i] = c THEN CHOOSE i \in DOMAIN t : t[i] = c /\ \A j \in 1..(i - 1) : t[j] # c ELSE 0
From(t, i) == SubSeq(t, i, Len(t))
StartsWith(t, p) == Len(t) >= Len(p) /\ SubSeq(t, 1, Len(p)) = p
RECURSIVE Strip(_)
Strip(t) == IF t # <<>> /\ t[Len(t)] = Slash THEN Strip(SubSeq(t, 1, Len(t) - 1)) ELSE t

\* ----------------------------------------------------------------- the grammar (author's side)
\* RFC 3986 percent-encoding of a key / an inner URI: "/", "%", "?" and "#" always, every character in style "all"
EncChar(c, style) == IF style = "all" \/ c \in {Slash, Percent, 63, 35}
                     THEN <<Percent, HexDigit(c \div 16, style = "lower"), HexDigit(c % 16, style = "lower")>> ELSE <<c>>
RECURSIVE Enc(_, _)
Enc(t, style) == IF t = <<>> THEN <<>> ELSE LET r == Enc(Tail(t), style) IN EncChar(Head(t), style) \o r

\* intents:  <<"ts", host, network, key, style>>   (host = <<>>: the contract itself; network = <<>>: the current one)
\*           <<"web", url>>   <<"ipfs", cid, path>>   <<"sha", "good"|"bad", inner intent, style>>   <<"raw", text>>
RECURSIVE Innermost(_)
Innermost(i) == IF i[1] = "sha" THEN Innermost(i[3]) ELSE i
\* the location an intent denotes
Target(i) == LET j == Innermost(i) IN
  CASE j[1] = "ts" -> IF j[3] \notin {<<>>, ChainId} \/ j[2] = Ghost THEN <<"fail">>
                      ELSE <<"bm", IF j[2] \in {<<>>, Self} THEN "self" ELSE "other", j[4]>>
    [] j[1] = "web" -> <<"web", j[2]>>
    [] j[1] = "ipfs" -> <<"ipfs", j[2] \o j[3]>>
    [] OTHER -> <<"fail">>
\* the world: what a location holds.  Every location of the base world holds its own document; the value under the key ""
\* is a URI (a text, not a document); the fault replaces what the target of the intent holds.
Base(loc) == CASE loc[1] = "bm" -> IF loc[3] \notin Keys THEN <<"absent">> ELSE IF loc[3] = <<>> THEN <<"text">> ELSE <<"doc", loc>>
               [] loc[1] = "web" -> IF loc[2] \in WebUrls THEN <<"doc", loc>> ELSE <<"absent">>
               [] loc[1] = "ipfs" -> IF loc[2] \in {c \o p : c \in Cids, p \in IpfsPaths} THEN <<"doc", loc>> ELSE <<"absent">>
Content(loc) == IF fault[1] = "at" /\ loc = Target(intent) THEN <<fault[2]>> ELSE Base(loc)
\* "absent": no such key / HTTP 404 with a body that is no JSON;  "errjson": HTTP 404 whose body is a JSON object
Served(b) == b[1] \notin {"absent", "errjson"}

RECURSIVE TextOf(_)
TextOf(i) ==
  CASE i[1] = "ts" -> TS \o <<Colon>> \o (IF i[2] = <<>> THEN <<>> ELSE <<Slash, Slash>> \o i[2] \o (IF i[3] = <<>> THEN <<>> ELSE <<Dot>> \o i[3]) \o <<Slash>>)
                         \o Enc(i[4], i[5])
    [] i[1] = "web" -> i[2]
    [] i[1] = "ipfs" -> IPFS \o <<Colon, Slash, Slash>> \o i[2] \o i[3]
    [] i[1] = "sha" -> LET inner == TextOf(i[3])
                           t == Target(i) IN
                         SHA \o <<Colon, Slash, Slash, Zero, LowerX>>
                             \o (IF i[2] = "good" /\ t # <<"fail">> THEN HashOf(Content(t)) ELSE BadHash) \o <<Slash>> \o Enc(inner, i[4])
    [] OTHER -> i[2]

Plain == {<<"ts", <<>>, <<>>, k, s>> : k \in Keys, s \in Styles}
         \cup {<<"ts", h, n, k, s>> : h \in {Self, Other, Ghost}, n \in {<<>>, ChainId, OtherChain}, k \in Keys, s \in Styles}
         \cup {<<"web", u>> : u \in WebUrls} \cup {<<"ipfs", c, p>> : c \in Cids, p \in IpfsPaths}
\* sha256 wrappers are built around the plain intents written in the minimal style
PlainMin == {i \in Plain : i[1] = "ts" => (i[5] = "min" /\ Target(i) # <<"bm", "self", <<>>>>)}   \* (the value under Self's "" is the URI itself)
Sha(S) == {<<"sha", g, i, s>> : g \in {"good", "bad"}, i \in S, s \in ShaStyles}
Intents == Plain \cup {<<"raw", t>> : t \in RawUris}
           \cup (IF MaxNest >= 1 THEN Sha(PlainMin) ELSE {})
           \cup (IF MaxNest >= 2 THEN Sha({i \in Sha(PlainMin) : i[4] = "min" /\ Innermost(i)[1] \in {"web", "ts"}}) ELSE {})
Faults(i) == LET t == Target(i) IN
  {<<"none">>} \cup (CASE t[1] = "bm" -> IF t[3] = <<>> THEN {} ELSE {<<"at", k>> : k \in {"absent", "notjson", "badschema", "notutf8"}}
                       [] t[1] \in {"web", "ipfs"} -> {<<"at", k>> : k \in {"absent", "notjson", "badschema", "errjson"}}
                       [] OTHER -> {})
Discoverable == {"top", "flat", "named", "second"}     \* layouts in which a big_map annotated %metadata exists somewhere in the storage
Probe(i) == (i[1] = "ts" /\ i[4] # <<>> /\ i[5] = "min" /\ i[3] = <<>> /\ i[2] \in {<<>>, Self, Other}) \/ i[1] = "web"
UsesIpfs(i) == Innermost(i)[1] = "ipfs"

\* ----------------------------------------------------------------- what the user relies on (no parsing involved)
RECURSIVE AllGood(_)
AllGood(i) == i[1] = "sha" => (i[2] = "good" /\ AllGood(i[3]))
FailClass(i) == LET j == Innermost(i) IN
  IF j[1] = "ts" THEN (IF j[3] \notin {<<>>, ChainId} THEN "wrong-network" ELSE "unknown-contract") ELSE "unsupported"
IntendedOf(i) ==
  IF layout \notin Discoverable \/ fault = <<"nourl">> THEN <<"none">>
  ELSE LET t == Target(i) IN
    IF t = <<"fail">> THEN <<"error", FailClass(i)>>
    ELSE LET b == Content(t) IN
      CASE ~Served(b) -> <<"error", IF t[1] = "bm" THEN "missing-key" ELSE "fetch-failed">>
        [] Served(b) /\ ~AllGood(i) -> <<"error", "hash-mismatch">>
        [] Served(b) /\ AllGood(i) /\ b[1] \in {"notjson", "text", "notutf8"} -> <<"error", "malformed">>
        [] Served(b) /\ AllGood(i) /\ b[1] = "badschema" -> <<"error", "schema">>
        [] OTHER -> b
Intended == IntendedOf(intent)
GatewayText == Strip(gw[2])

\* ----------------------------------------------------------------- the resolver
Reset == /\ round = 1 /\ url = NoUrl /\ cur = <<>> /\ text = <<>> /\ scheme = <<>> /\ auth = <<>> /\ contract = "self"
         /\ key = <<>> /\ dfor = "ts" /\ pending = <<>> /\ body = <<"nothing">> /\ result = <<"unset">> /\ first = <<"unset">> /\ mark = <<0, 0>>
         /\ lookups = <<>> /\ fetched = <<>> /\ asked = {Self} /\ blocks = {} /\ taken = {}
Init ==
  /\ devs \in DevChoices
  /\ \E i \in Intents, l \in Layouts, g \in Gateways :
       /\ intent = i /\ layout = l /\ gw = g
       /\ fault \in Faults(i) \cup (IF Probe(i) THEN {<<"nourl">>} ELSE {})
       /\ (ProbeOnly /\ l # "top") => (Probe(i) /\ fault \in {<<"none">>, <<"nourl">>})
       /\ g[1] # "default" => (UsesIpfs(i) /\ fault = <<"none">>)
       /\ block \in {"head", "past"} /\ (block = "past" => (Probe(i) /\ fault = <<"none">> /\ l = "top"))
  /\ pc = "start" /\ Reset

Fail(cls) == pc' = "done" /\ result' = <<"error", cls>>

\* metadata_url: find the big_map annotated %metadata anywhere in the storage and read the key "" (the property is cached:
\* a second resolution after a failed one starts from the URI already read)
ReadUrl ==
  /\ pc = "start"
  /\ IF round = 2
     THEN /\ pc' = "scheme" /\ cur' = url /\ text' = url /\ UNCHANGED <<url, lookups, result>>
     ELSE IF layout \notin Discoverable
          THEN /\ pc' = "done" /\ result' = <<"none">> /\ UNCHANGED <<url, cur, text, lookups>>
          ELSE /\ lookups' = Append(lookups, <<"self", <<>>>>)
               /\ IF fault = <<"nourl">>
                  THEN /\ pc' = "done" /\ result' = <<"none">> /\ UNCHANGED <<url, cur, text>>
                  ELSE /\ url' = TextOf(intent) /\ cur' = url' /\ text' = url' /\ pc' = "scheme" /\ UNCHANGED result
  /\ blocks' = (IF round = 1 THEN blocks \cup {block} ELSE blocks)          \* the storage is read as of the block the interface is bound to
  /\ scheme' = <<>> /\ auth' = <<>> /\ contract' = "self" /\ key' = <<>> /\ pending' = <<>> /\ body' = <<"nothing">> /\ dfor' = "ts"
  /\ UNCHANGED <<world, round, first, mark, fetched, asked, taken>>

\* RFC 3986: scheme = ALPHA *( ALPHA / DIGIT / "+" / "-" / "." ) ":" ; case-insensitive
IsAlpha(c) == (c >= 65 /\ c <= 90) \/ (c >= 97 /\ c <= 122)
IsSchemeChar(c) == IsAlpha(c) \/ (c >= 48 /\ c <= 57) \/ c \in {43, 45, 46}
Lower(t) == [k \in DOMAIN t |-> IF t[k] >= 65 /\ t[k] <= 90 THEN t[k] + 32 ELSE t[k]]
SplitScheme ==
  /\ pc = "scheme"
  /\ LET i == IndexOf(text, Colon) IN
       IF i > 1 /\ IsAlpha(text[1]) /\ \A k \in 1..(i - 1) : IsSchemeChar(text[k])
       THEN scheme' = Lower(SubSeq(text, 1, i - 1)) /\ text' = From(text, i + 1)
       ELSE scheme' = <<>> /\ UNCHANGED text
  /\ pc' = "dispatch"
  /\ UNCHANGED <<world, round, url, cur, auth, contract, key, dfor, pending, body, result, first, mark, io, taken>>

Dispatch ==
  /\ pc = "dispatch" /\ scheme # SHA
  /\ CASE scheme = TS -> pc' = "ts-authority" /\ UNCHANGED result
       [] scheme \in {HTTP, HTTPS} -> pc' = "web-fetch" /\ UNCHANGED result
       [] scheme = IPFS -> pc' = "ipfs-fetch" /\ UNCHANGED result
       [] OTHER -> Fail("unsupported")
  /\ UNCHANGED <<world, round, url, parse, first, mark, io, taken>>

\* sha256://0x<hash>/<percent-encoded URI>: remember the hash, decode the inner URI, resolve it
ShaOpen ==
  /\ pc = "dispatch" /\ scheme = SHA /\ "Sha256Unsupported" \notin devs
  /\ IF StartsWith(text, <<Slash, Slash, Zero, LowerX>>) /\ IndexOf(From(text, 5), Slash) > 1
     THEN LET r == From(text, 5)
              i == IndexOf(r, Slash) IN
            /\ pending' = Append(pending, SubSeq(r, 1, i - 1)) /\ text' = From(r, i + 1) /\ key' = <<>> /\ dfor' = "sha" /\ pc' = "decode"
            /\ UNCHANGED result
     ELSE Fail("unsupported") /\ UNCHANGED <<pending, text, key, dfor>>
  /\ UNCHANGED <<world, round, url, cur, scheme, auth, contract, body, first, mark, io, taken>>
\* AS CODED (interface.py: `elif parsed_url.scheme == 'sha256': raise NotImplementedError`): sha256 URIs are not resolved
Sha256UnsupportedAsCoded ==
  /\ pc = "dispatch" /\ scheme = SHA /\ "Sha256Unsupported" \in devs
  /\ Fail("unsupported") /\ taken' = taken \cup {"Sha256Unsupported"}
  /\ UNCHANGED <<world, round, url, parse, first, mark, io>>

\* tezos-storage:[//<host>/]<key>
TsAuthority ==
  /\ pc = "ts-authority"
  /\ IF StartsWith(text, <<Slash, Slash>>)
     THEN LET r == From(text, 3)
              i == IndexOf(r, Slash) IN
            IF i = 0 THEN Fail("unsupported") /\ UNCHANGED <<auth, text>>
            ELSE auth' = SubSeq(r, 1, i - 1) /\ text' = From(r, i + 1) /\ pc' = "ts-host" /\ UNCHANGED result
     ELSE auth' = <<>> /\ pc' = "ts-host" /\ UNCHANGED <<text, result>>
  /\ UNCHANGED <<world, round, url, cur, scheme, contract, key, dfor, pending, body, first, mark, io, taken>>

ContractAt(a) == IF a = Self THEN "self" ELSE IF a = Other THEN "other" ELSE "ghost"
\* host = <address>[.<network>]; a contract of another network cannot be read through this node
TsHost ==
  /\ pc = "ts-host" /\ ("HostNetworkNotSplit" \notin devs \/ IndexOf(auth, Dot) = 0)
  /\ LET d == IndexOf(auth, Dot)
         addr == IF d = 0 THEN auth ELSE SubSeq(auth, 1, d - 1)
         net == IF d = 0 THEN <<>> ELSE From(auth, d + 1) IN
       IF net \notin {<<>>, ChainId}
       THEN Fail("wrong-network") /\ UNCHANGED <<contract, asked, key, dfor>>
       ELSE /\ contract' = (IF auth = <<>> THEN "self" ELSE ContractAt(addr))
            /\ asked' = (IF auth = <<>> THEN asked ELSE asked \cup {addr})
            /\ key' = <<>> /\ dfor' = "ts" /\ pc' = "decode" /\ UNCHANGED result
  /\ UNCHANGED <<world, round, url, cur, text, scheme, auth, pending, body, first, mark, lookups, fetched, blocks, taken>>
\* AS CODED (`_spawn_context(address=parsed_url.netloc)`): the whole authority is taken for the address
TsHostNetworkNotSplitAsCoded ==
  /\ pc = "ts-host" /\ "HostNetworkNotSplit" \in devs /\ IndexOf(auth, Dot) > 0
  /\ contract' = ContractAt(auth) /\ asked' = asked \cup {auth} /\ key' = <<>> /\ dfor' = "ts" /\ pc' = "decode"
  /\ taken' = taken \cup {"HostNetworkNotSplit"}
  /\ UNCHANGED <<world, round, url, cur, text, scheme, auth, pending, body, result, first, mark, lookups, fetched, blocks>>

\* percent-decoding, one step per character or escape of the remaining text
Escape(t) == Len(t) >= 3 /\ t[1] = Percent /\ HexVal(t[2]) >= 0 /\ HexVal(t[3]) >= 0
DecodeStep ==
  /\ pc = "decode" /\ text # <<>> /\ ~(dfor = "ts" /\ "KeyNotDecoded" \in devs)
  /\ IF Escape(text) THEN key' = Append(key, 16 * HexVal(text[2]) + HexVal(text[3])) /\ text' = From(text, 4)
     ELSE key' = Append(key, Head(text)) /\ text' = Tail(text)
  /\ UNCHANGED <<world, pc, round, url, cur, scheme, auth, contract, dfor, pending, body, result, first, mark, io, taken>>
DecodeEnd ==
  /\ pc = "decode" /\ text = <<>> /\ ~(dfor = "ts" /\ "KeyNotDecoded" \in devs)
  /\ IF dfor = "ts" THEN pc' = "ts-lookup" /\ UNCHANGED <<cur, text, key>>
     ELSE cur' = key /\ text' = key /\ key' = <<>> /\ pc' = "scheme"       \* the decoded inner URI is resolved from its scheme on
  /\ UNCHANGED <<world, round, url, scheme, auth, contract, dfor, pending, body, result, first, mark, io, taken>>
\* the same function, written without an index: the first escape splits the text
RECURSIVE PercentDecoded(_)
PercentDecoded(t) == LET i == IndexOf(t, Percent) IN
  IF i = 0 THEN t
  ELSE IF Escape(From(t, i)) THEN LET r == PercentDecoded(From(t, i + 3)) IN SubSeq(t, 1, i - 1) \o <<16 * HexVal(t[i + 1]) + HexVal(t[i + 2])>> \o r
  ELSE LET r == PercentDecoded(From(t, i + 1)) IN SubSeq(t, 1, i) \o r
\* AS CODED (`storage['metadata'][parts[-1]]`): the path of the URI is used as the key as it is
TsKeyNotDecodedAsCoded ==
  /\ pc = "decode" /\ dfor = "ts" /\ "KeyNotDecoded" \in devs
  /\ key' = text /\ text' = <<>> /\ pc' = "ts-lookup"
  /\ taken' = (IF PercentDecoded(text) # text THEN taken \cup {"KeyNotDecoded"} ELSE taken)
  /\ UNCHANGED <<world, round, url, cur, scheme, auth, contract, dfor, pending, body, result, first, mark, io>>

\* the %metadata big_map of the addressed contract, found the same way as in ReadUrl
TsLookup ==
  /\ pc = "ts-lookup" /\ ~("NestedMapNotReached" \in devs /\ contract = "self" /\ layout = "named")
  /\ IF contract = "ghost" THEN Fail("unknown-contract") /\ UNCHANGED <<lookups, body, blocks, taken>>
     ELSE \* AS CODED (`_spawn_context(address=..)` without the block id): a contract named by the URI is read at the head
          LET at == IF auth # <<>> /\ "HostReadAtHead" \in devs THEN "head" ELSE block IN
          /\ lookups' = Append(lookups, <<contract, key>>) /\ blocks' = blocks \cup {at}
          /\ taken' = (IF at # block THEN taken \cup {"HostReadAtHead"} ELSE taken)
          /\ LET b == Content(<<"bm", contract, key>>) IN
               IF Served(b) THEN body' = b /\ pc' = "check-hash" /\ UNCHANGED result
               ELSE Fail("missing-key") /\ UNCHANGED body
  /\ UNCHANGED <<world, round, url, cur, text, scheme, auth, contract, key, dfor, pending, first, mark, fetched, asked>>
\* AS CODED (`storage['metadata']` addresses a field of the top-level record only, while metadata_url searches the whole
\* storage tree): a %metadata big_map inside a named inner record is found for the URI but not for the document
TsNestedMapNotReachedAsCoded ==
  /\ pc = "ts-lookup" /\ "NestedMapNotReached" \in devs /\ contract = "self" /\ layout = "named"
  /\ Fail("missing-key") /\ taken' = taken \cup {"NestedMapNotReached"}
  /\ UNCHANGED <<world, round, url, parse, first, mark, io>>

\* http(s): GET the URI as it is; only a 200 carries the document
WebFetch ==
  /\ pc = "web-fetch"
  /\ fetched' = Append(fetched, cur)
  /\ LET b == Content(<<"web", cur>>) IN
       IF Served(b) THEN body' = b /\ pc' = "check-hash" /\ UNCHANGED <<result, taken>>
       ELSE IF b = <<"errjson">> /\ "StatusIgnored" \in devs
            \* AS CODED (`requests.get(url).json()` without a look at the status): the body of an error response is the document
            THEN body' = b /\ pc' = "check-hash" /\ taken' = taken \cup {"StatusIgnored"} /\ UNCHANGED result
            ELSE Fail("fetch-failed") /\ UNCHANGED <<body, taken>>
  /\ UNCHANGED <<world, round, url, cur, text, scheme, auth, contract, key, dfor, pending, first, mark, lookups, asked, blocks>>

\* ipfs://<cid>[/<path>] is fetched from <gateway>/<cid>[/<path>]; the gateway may be configured on the client or on the contract
IpfsFetch ==
  /\ pc = "ipfs-fetch"
  /\ IF ~StartsWith(text, <<Slash, Slash>>) THEN Fail("unsupported") /\ UNCHANGED <<fetched, body, taken>>
     ELSE LET whole == From(text, 3)
              s == IndexOf(whole, Slash)
              \* AS CODED (`from_ipfs(parsed_url.netloc)`): the path below the content identifier is dropped
              dropped == "IpfsPathDropped" \in devs /\ s > 0
              path == IF dropped THEN SubSeq(whole, 1, s - 1) ELSE whole
              \* AS CODED (`_spawn_context(ipfs_gateway=ipfs_gateway)` in PyTezosClient.contract): a gateway configured on the client is lost
              lost == "ClientGatewayLost" \in devs /\ gw[1] = "client" /\ GatewayText # DefaultGateway
              g == IF lost THEN DefaultGateway ELSE GatewayText
              b == IF lost THEN <<"absent">> ELSE Content(<<"ipfs", path>>)
              t == taken \cup (IF dropped THEN {"IpfsPathDropped"} ELSE {}) \cup (IF lost THEN {"ClientGatewayLost"} ELSE {}) IN
            /\ fetched' = Append(fetched, g \o <<Slash>> \o path)
            /\ IF Served(b) THEN body' = b /\ pc' = "check-hash" /\ taken' = t /\ UNCHANGED result
               ELSE IF b = <<"errjson">> /\ "StatusIgnored" \in devs
                    THEN body' = b /\ pc' = "check-hash" /\ taken' = t \cup {"StatusIgnored"} /\ UNCHANGED result
                    ELSE Fail("fetch-failed") /\ taken' = t /\ UNCHANGED body
  /\ UNCHANGED <<world, round, url, cur, text, scheme, auth, contract, key, dfor, pending, first, mark, lookups, asked, blocks>>

CheckHash ==
  /\ pc = "check-hash"
  /\ IF \A k \in DOMAIN pending : pending[k] = HashOf(body) THEN pc' = "json" /\ UNCHANGED result ELSE Fail("hash-mismatch")
  /\ UNCHANGED <<world, round, url, parse, first, mark, io, taken>>
ParseJson ==
  /\ pc = "json"
  /\ IF body[1] \in {"notjson", "text", "notutf8"} THEN Fail("malformed") ELSE pc' = "validate" /\ UNCHANGED result
  /\ UNCHANGED <<world, round, url, parse, first, mark, io, taken>>
Validate ==
  /\ pc = "validate"
  /\ IF body[1] = "badschema" \/ (body[1] = "errjson" /\ ~ErrJsonValid) THEN Fail("schema") ELSE pc' = "done" /\ result' = body
  /\ UNCHANGED <<world, round, url, parse, first, mark, io, taken>>

\* the property is read a second time: a value (a document, or None) is cached; a failure is not, the resolution runs again
Again ==
  /\ pc = "done" /\ round = 1
  /\ round' = 2 /\ first' = result /\ mark' = <<Len(lookups), Len(fetched)>>
  /\ pc' = (IF result[1] = "error" THEN "start" ELSE "done")
  /\ UNCHANGED <<world, url, parse, result, io, taken>>

\* from a URI to a document
UriSteps == SplitScheme \/ Dispatch \/ ShaOpen \/ Sha256UnsupportedAsCoded \/ TsAuthority \/ TsHost \/ TsHostNetworkNotSplitAsCoded
            \/ DecodeStep \/ DecodeEnd \/ TsKeyNotDecodedAsCoded \/ TsLookup \/ TsNestedMapNotReachedAsCoded \/ WebFetch \/ IpfsFetch
            \/ CheckHash \/ ParseJson \/ Validate
Next == ReadUrl \/ UriSteps \/ Again
Spec == Init /\ [][Next]_vars

\* ----------------------------------------------------------------- properties
Done == pc = "done"
\* the document is the one the intent denotes (or the resolution fails where it denotes none) - unless a named deviation interfered
ResultIsIntended == Done /\ taken = {} => result = Intended
OnlyNamedDeviations == taken \subseteq devs /\ (Done /\ result # Intended => taken # {})
\* a tezos-storage key is percent-decoded exactly once: the key looked up is the key the author encoded
KeyDecodedOnce == pc = "ts-lookup" /\ "KeyNotDecoded" \notin taken => key = Innermost(intent)[4]
\* the automaton's decoder agrees with the index-free definition, and decoding undoes the encoding in every style
DecoderAgrees == pc = "ts-lookup" /\ "KeyNotDecoded" \notin devs =>
                   LET j == Innermost(intent) IN key = PercentDecoded(Enc(j[4], j[5]))
\* host, network and contract are recovered from the text
HostRecovered == pc = "ts-lookup" /\ taken = {} =>
                   LET j == Innermost(intent) IN j[1] = "ts" /\ j[3] \in {<<>>, ChainId}
                                                /\ contract = (IF j[2] = <<>> THEN "self" ELSE ContractAt(j[2]))
\* a sha256 URI resolves to what its inner URI resolves to, or fails on the hash
ShaTransparent == Done /\ taken = {} /\ intent[1] = "sha" =>
                    LET inner == IntendedOf(intent[3]) IN
                      /\ result = inner \/ (~AllGood(intent) /\ result = <<"error", "hash-mismatch">>)
                      /\ AllGood(intent) => result = inner
                      /\ ~AllGood(intent) => result[1] # "doc"
\* http(s) URIs are fetched verbatim; IPFS documents from <gateway>/<cid><path>
FetchedVerbatim == \A k \in DOMAIN fetched :
                     LET j == Innermost(intent) IN
                       /\ j[1] \in {"web", "ipfs"}
                       /\ j[1] = "web" => fetched[k] = j[2]
                       /\ (j[1] = "ipfs" /\ taken = {}) => fetched[k] = Strip(gw[2]) \o <<Slash>> \o j[2] \o j[3]
\* nothing is followed beyond the document: at most the key "" and one more lookup, or one fetch, per resolution; in particular a URI
\* that points to the key "" itself (or to any other URI) ends in an error instead of a loop
Bounded == Len(lookups) <= 1 + round /\ Len(fetched) <= round /\ (round = 1 => Len(lookups) + Len(fetched) <= 2)
SelfReferenceFails == Done /\ Target(intent) \in {<<"bm", "self", <<>>>>, <<"bm", "other", <<>>>>} /\ layout \in Discoverable /\ fault # <<"nourl">>
                        => result[1] = "error"
\* resolution is a function of the world: the second access gives what the first gave; a cached value costs no further request
Deterministic == round = 2 /\ Done => result = first
CachedNoIO == round = 2 /\ first[1] # "error" => mark = <<Len(lookups), Len(fetched)>>
NoneIffNoUri == Done => (result = <<"none">> <=> (layout \notin Discoverable \/ fault = <<"nourl">>))
IntendedModeIsClean == devs = {} => taken = {}
\* the chain is read as of one block, the one the contract interface is bound to
ReadsOneBlock == taken = {} => blocks \subseteq {block}
\* only contracts named by the URI are asked for
AskedOnlyNamed == asked \subseteq {Self} \cup (LET j == Innermost(intent) IN IF j[1] = "ts" /\ j[2] # <<>> THEN {j[2], j[2] \o <<Dot>> \o j[3]} ELSE {})

KindOf(i) == IF i[1] = "sha" THEN <<"sha", Innermost(i)[1]>> ELSE <<i[1]>>
Export == (Done /\ round = 2 /\ devs = Replayed) => PrintT(<<"OUT", "META", KindOf(intent), layout, fault, gw, url, Target(intent), first, result, mark, lookups, fetched, asked, taken, Intended, block, blocks, TextOf(intent)>>)
=============================================================================
