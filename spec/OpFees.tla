------------------------------- MODULE OpFees -------------------------------
(* C24 - automatically chosen fees meet the node's default minimal fee.

   (1) The PROPERTY (ideal), from the node's default mempool filter: an operation is admitted only if
          fee >= 100 mutez + 1 mutez * size + 0.1 mutez * gas_limit           (rounded up)
       where fee and gas_limit are the totals over the batch and size is the length of the signed
       operation (32-byte branch + contents + signature).  In nanotez, without rounding:
          1000 * TotalFee >= 100000 + 1000 * SignedSize + 100 * TotalGas          (`FeeOK`)

   (2) The fee computation AS IT IS CODED (operation/fees.py, group.py fill / autofill), one action per
       content like the loops of the code: per-content default limits, the fee estimate placed on the
       first content (fill) or accumulated per content and then placed on the first content (autofill),
       the size budget for branch and signature.  Sizes follow the binary schema of manager operations:
       tag, source, four Zarith naturals (fee, counter, gas_limit, storage_limit), kind-specific body.

   TLC shows for which scenarios the as-coded fee misses the bound (`FeeOK` is expected to be violated),
   names the cause (`Cause`) and shows that there is no other (`FeeOKmodDev`).  Leg B runs the real
   fill()/autofill() on every scenario, signs, measures the real byte length and demands the bound;
   a miss is a known-finding class only if fee, gas and size are exactly the as-coded machine's. *)
EXTENDS Integers, Sequences, TLC
CONSTANTS MaxBatch,       \* contents per group
          BigBatches,     \* sizes of additional large batches of plain transfers
          Kinds,          \* subset of {"transaction", "transaction_kt", "reveal", "delegation", "origination", "origination_big"}
          KeyKinds,       \* subset of {"tz1", "tz2", "tz3", "tz4"}
          Modes,          \* subset of {"fill", "autofill"}
          SimPool,        \* simulation results for autofill, indices into Sims
          Chains,         \* account counters on the node
          NodeHardGas, NodeHardStorage,   \* constants served by the node
          ScriptSize,     \* bytes of the (fixed) origination script incl. its two length prefixes
          UniformSim      \* TRUE: one simulation result for all contents of a batch; FALSE: first / rest chosen separately

\* simulation results <<consumed_milligas, paid_storage_size_diff, allocates (destination or originated contract),
\*                      number of internal operations the content emitted (each consuming IntMilligas, no storage)>>
IntMilligas == 1500500
Sims == << <<0, 0, FALSE, 0>>, <<1, 0, FALSE, 0>>, <<100000, 0, FALSE, 0>>, <<1000999, 300, TRUE, 0>>,
           <<1040000000, 59643, TRUE, 0>>, <<168000, 0, TRUE, 0>>, <<12345678, 16384, FALSE, 0>>,
           <<2000000, 0, FALSE, 1>>, <<100000, 77, TRUE, 2>> >>

VARIABLES pc, keyKind, mode, kinds, simIx, chain, cont, i, feeAcc, out
vars == <<pc, keyKind, mode, kinds, simIx, chain, cont, i, feeAcc, out>>

Min(a, b) == IF a < b THEN a ELSE b
ZSize(n) == IF n < 128 THEN 1 ELSE IF n < 16384 THEN 2 ELSE IF n < 2097152 THEN 3 ELSE IF n < 268435456 THEN 4 ELSE 5
CeilDiv(a, b) == (a + b - 1) \div b
N == Len(kinds)

RECURSIVE SeqsUpTo(_, _)
SeqsUpTo(S, n) == IF n = 0 THEN {<<>>} ELSE LET r == SeqsUpTo(S, n - 1) IN r \cup {Append(s, x) : s \in {t \in r : Len(t) = n - 1}, x \in S}
Batches == {b \in SeqsUpTo(Kinds, MaxBatch) : b # <<>>}
           \cup {[k \in 1..n |-> "transaction"] : n \in BigBatches}      \* large uniform batches (per-content rounding must stay covered)

\* ---- sizes (binary schema of manager operations) ----
PkLen(kk) == CASE kk = "tz1" -> 32 [] kk = "tz2" -> 33 [] kk = "tz3" -> 33 [] kk = "tz4" -> 48
SigLen(kk) == IF kk = "tz4" THEN 96 ELSE 64
Amount(j) == j                       \* the j-th content transfers j mutez / originates with balance j - 1 (harness convention)
Body(kind, j, kk) ==
  CASE kind = "transaction" -> ZSize(Amount(j)) + 22 + 1
    [] kind = "transaction_kt" -> ZSize(Amount(j)) + 22 + 1
    [] kind = "reveal" -> 1 + PkLen(kk) + 1
    [] kind = "delegation" -> 1 + 21
    [] kind = "origination" -> ZSize(Amount(j) - 1) + 1 + ScriptSize
    [] kind = "origination_big" -> ZSize(Amount(j) - 1) + 1 + ScriptSize + 400     \* the same script with 100 x { DUP ; DROP } more code: contents of very different sizes in one batch
ContentSize(c, j, kk) == 1 + 21 + ZSize(c.fee) + ZSize(c.counter) + ZSize(c.gas) + ZSize(c.storage) + Body(c.kind, j, kk)

\* ---- fees.py ----
DefaultHardGas == 1040000            \* DEFAULT_CONSTANTS of fees.py (used when no constants are passed)
DefaultHardStorage == 60000
DefGas(kind, kk, hard) ==
  CASE kind = "reveal" -> (CASE kk = "tz1" -> 176 [] kk = "tz2" -> 162 [] kk = "tz3" -> 1101 [] kk = "tz4" -> 1681)
    [] kind = "delegation" -> 1000
    [] kind = "origination" -> hard
    [] kind = "origination_big" -> hard
    [] kind = "transaction" -> 3040
    [] kind = "transaction_kt" -> hard
DefStorage(kind, hard) ==
  CASE kind = "reveal" -> 0 [] kind = "delegation" -> 0 [] kind = "origination" -> hard [] kind = "origination_big" -> hard
    [] kind = "transaction" -> 257 [] kind = "transaction_kt" -> hard
\* calculate_fee(content, consumed_gas, extra_size, reserve = 10): the content still carries fee 0
CalcFee(c, j, kk, gas, extra) == 100 + (ContentSize([c EXCEPT !.fee = 0], j, kk) + extra) + ((100 * gas) \div 1000) + 10
\* default_fee(content): gas = default_gas_limit(content) with the DEFAULT constants, extra = 32 + 64 + 3 * 3
\* default_fee(content, gas_limit of the content, signature size of the key) - as repaired: every content is priced with its own limit
DefaultFee(c, j, kk) == CalcFee(c, j, kk, c.gas, 32 + SigLen(kk) + 9)

----------------------------------------------------------------------------
Init == /\ pc = "fill" /\ keyKind \in KeyKinds /\ mode \in Modes /\ kinds \in Batches /\ chain \in Chains
        /\ simIx \in (IF mode = "fill" THEN {<<1, 1>>}
                      ELSE IF UniformSim \/ Len(kinds) = 1 THEN {<<s, s>> : s \in SimPool}
                      ELSE {<<s, t>> : s \in SimPool, t \in SimPool})
        /\ cont = <<>> /\ i = 1 /\ feeAcc = 0 /\ out = <<>>
\* indices from 1000 on stand for a sweep of consumed gas, one unit apart, around the point where the fee of a single transfer needs one more
\* byte for its own encoding (16383 -> 16384 mutez): a fee pays for the bytes of the fee
SweepBase == 160700
SimAt(ix) == IF ix < 1000 THEN Sims[ix] ELSE <<(SweepBase + ix - 1000) * 1000, 0, FALSE, 0>>
SimOf(j) == SimAt(IF j = 1 THEN simIx[1] ELSE simIx[2])

\* fill(): one content per step (fill_content with the replace_map in its order: counter, limits, then fee)
FillStep ==
  /\ pc = "fill"
  /\ LET kind == kinds[i]
         c0 == [kind |-> kind, fee |-> 0, counter |-> chain + i,
                gas |-> Min(NodeHardGas \div N, DefGas(kind, keyKind, NodeHardGas)),
                storage |-> Min(NodeHardStorage \div N, DefStorage(kind, NodeHardStorage))]
         c == [c0 EXCEPT !.fee = DefaultFee(c0, i, keyKind)] IN
     /\ cont' = Append(cont, c)
     /\ i' = IF i = N THEN 1 ELSE i + 1
     /\ pc' = IF i < N THEN "fill" ELSE IF mode = "fill" THEN "sign" ELSE "auto"
  /\ UNCHANGED <<keyKind, mode, kinds, simIx, chain, feeAcc, out>>

\* autofill(): loop over the simulated contents
AutoStep ==
  /\ pc = "auto"
  /\ LET kind == kinds[i]
         s == SimOf(i)
         reserve == IF kind \in {"origination", "origination_big", "transaction", "transaction_kt"} THEN 100 ELSE 0
         gas == CeilDiv(s[1], 1000) + s[4] * CeilDiv(IntMilligas, 1000) + reserve     \* every result of the content counts, the internal ones too
         sto == s[2] + (IF s[3] THEN 257 ELSE 0) + reserve
         c == [cont[i] EXCEPT !.gas = gas, !.storage = sto, !.fee = 0] IN
     /\ cont' = [cont EXCEPT ![i] = c]
     /\ feeAcc' = feeAcc + CalcFee(c, i, keyKind, gas, 1 + ((32 + SigLen(keyKind)) \div N))
     /\ i' = IF i = N THEN 1 ELSE i + 1
     /\ pc' = IF i < N THEN "auto" ELSE "place"
  /\ UNCHANGED <<keyKind, mode, kinds, simIx, chain, out>>
Place ==
  /\ pc = "place"
  /\ cont' = IF feeAcc > 0 THEN [cont EXCEPT ![1].fee = feeAcc] ELSE cont
  /\ pc' = "sign"
  /\ UNCHANGED <<keyKind, mode, kinds, simIx, chain, i, feeAcc, out>>

RECURSIVE SumFee(_), SumGas(_), SumSize(_)
SumFee(k) == IF k = 0 THEN 0 ELSE LET r == SumFee(k - 1) IN r + cont[k].fee
SumGas(k) == IF k = 0 THEN 0 ELSE LET r == SumGas(k - 1) IN r + cont[k].gas
SumSize(k) == IF k = 0 THEN 0 ELSE LET r == SumSize(k - 1) IN r + ContentSize(cont[k], k, keyKind)
TotalFee == SumFee(Len(cont))
TotalGas == SumGas(Len(cont))
ForgedSize == 32 + SumSize(Len(cont))
\* the property, for a signature of `sig` bytes
FeeOKWith(sig) == 1000 * TotalFee >= 100000 + 1000 * (ForgedSize + sig) + 100 * TotalGas
Cause == IF FeeOKWith(SigLen(keyKind)) THEN "ok"
         ELSE IF FeeOKWith(64) THEN "bls-signature-size-not-budgeted"              \* 96-byte tz4 signatures
         ELSE IF mode = "fill" /\ N > 1 THEN "fill-prices-only-first-content-of-batch"
         ELSE "unexplained"
Sign ==
  /\ pc = "sign"
  /\ out' = [fee |-> TotalFee, gas |-> TotalGas, forged |-> ForgedSize, sig |-> SigLen(keyKind), cls |-> Cause,
             fees |-> [k \in DOMAIN cont |-> cont[k].fee], gases |-> [k \in DOMAIN cont |-> cont[k].gas],
             storages |-> [k \in DOMAIN cont |-> cont[k].storage], counters |-> [k \in DOMAIN cont |-> cont[k].counter]]
  /\ pc' = "done"
  /\ UNCHANGED <<keyKind, mode, kinds, simIx, chain, cont, i, feeAcc>>

Next == FillStep \/ AutoStep \/ Place \/ Sign
Spec == Init /\ [][Next]_vars

\* the property as stated (ideal) - expected to be VIOLATED by the as-coded computation
FeeOK == pc = "done" => out.cls = "ok"
\* the as-coded computation misses the bound only for the named causes
FeeOKmodDev == pc = "done" => out.cls # "unexplained"
\* ... and never for a single content signed with a 64-byte signature, nor for any autofilled group signed with one
DevIsReal == pc = "done" /\ keyKind # "tz4" /\ (mode = "autofill" \/ N = 1) => out.cls = "ok"
\* limits never exceed the node's hard limits per operation
LimitsWithinHard == pc = "done" /\ mode = "fill" => out.gas <= NodeHardGas
No_bls == pc = "done" => out.cls # "bls-signature-size-not-budgeted"
No_batch == pc = "done" => out.cls # "fill-prices-only-first-content-of-batch"
=============================================================================
