------------------------------- MODULE OpSign -------------------------------
(* C23 - operation groups from any account kind are signed and hashed per protocol.

   The signing clause of the property with uninterpreted primitives (DESIGN 2.3 / 3.4):
     watermark  = 0x03                       for non-consensus operations,
                  0x02 || chain_id           for consensus operations (validation pass 0),
     signature  = Sig(sk, Digest(curve, watermark || forged))
                  Digest = Blake2b-256 for Ed25519 / Secp256k1 / P-256, the bytes themselves for BLS
                  (the BLS scheme hashes to the curve on its own),
     group hash = B58("o", Blake2b-256(forged || raw signature)).
   `Hash`, `Sig`, `B58`, `Forged` are constructors (tag-first tuples).  sign()/hash() are written as
   the steps the client performs; the invariants state the property on the result.  The replay
   harness interprets the constructors with implementations that are independent of pytezos
   (hashlib, `cryptography`, own base58); TLC's job here is to enumerate the scenarios
   kinds x key kind x chain id and to check the clauses against each other (a signature never
   verifies under the other watermark, consensus signatures are bound to the chain, ...).

   Groups mixing validation passes are rejected by sign() and are outside the property; they are
   not generated.  Anonymous operations (validation pass 2) carry no meaningful signature and
   are not in the kind pool. *)
EXTENDS Integers, Sequences, TLC
CONSTANTS Kinds,        \* kind pool, a subset of DOMAIN Pass
          KeyKinds,     \* subset of {"tz1", "tz2", "tz3", "tz4"}
          ChainIds,     \* abstract chain ids (indices into the harness' list)
          MaxBatch

\* validation passes as the protocol defines them (3 = manager, 0 = consensus, -1 = failing_noop: no pass, never applied)
Pass == [transaction |-> 3, reveal |-> 3, delegation |-> 3, origination |-> 3, register_global_constant |-> 3,
         failing_noop |-> -1, endorsement |-> 0, endorsement_with_slot |-> 0]

VARIABLES pc, kinds, keyKind, chain, wm, sig, hash
vars == <<pc, kinds, keyKind, chain, wm, sig, hash>>

RECURSIVE SeqsUpTo(_, _)
SeqsUpTo(S, n) == IF n = 0 THEN {<<>>} ELSE LET r == SeqsUpTo(S, n - 1) IN r \cup {Append(s, x) : s \in {t \in r : Len(t) = n - 1}, x \in S}
Uniform(b) == \A k \in DOMAIN b : Pass[b[k]] = Pass[b[1]]
\* consensus operations and failing_noop are single-content groups
Batches == {b \in SeqsUpTo(Kinds, MaxBatch) : b # <<>> /\ Uniform(b) /\ (Len(b) > 1 => Pass[b[1]] = 3)}

\* ---- uninterpreted primitives ----
Forged(b) == <<"forged", b>>
Cat(a, b) == <<"cat", a, b>>
Hash(x) == <<"blake2b-256", x>>
Sk(kk) == <<"sk", kk>>
Pk(kk) == <<"pk", kk>>
Digest(kk, m) == IF kk = "tz4" THEN m ELSE Hash(m)
Sig(sk, d) == <<"sig", sk, d>>
Verifies(pk, s, kk, m) == s = Sig(<<"sk", pk[2]>>, Digest(kk, m))
Raw(s) == <<"raw", s>>
B58(prefix, x) == <<"b58", prefix, x>>

Consensus(b) == Pass[b[1]] = 0
WatermarkFor(b, c) == IF Consensus(b) THEN <<"02", <<"chain", c>>>> ELSE <<"03">>

Init == /\ pc = "watermark" /\ kinds \in Batches /\ keyKind \in KeyKinds /\ chain \in ChainIds
        /\ wm = <<>> /\ sig = <<>> /\ hash = <<>>
\* sign(): validation pass of the first content decides the watermark
Watermark == /\ pc = "watermark" /\ wm' = WatermarkFor(kinds, chain) /\ pc' = "sign"
             /\ UNCHANGED <<kinds, keyKind, chain, sig, hash>>
Sign == /\ pc = "sign" /\ sig' = Sig(Sk(keyKind), Digest(keyKind, Cat(wm, Forged(kinds)))) /\ pc' = "hash"
        /\ UNCHANGED <<kinds, keyKind, chain, wm, hash>>
HashStep == /\ pc = "hash" /\ hash' = B58("o", Hash(Cat(Forged(kinds), Raw(sig)))) /\ pc' = "done"
            /\ UNCHANGED <<kinds, keyKind, chain, wm, sig>>
Next == Watermark \/ Sign \/ HashStep
Spec == Init /\ [][Next]_vars

\* ---- the property ----
WatermarkRule == pc \in {"sign", "hash", "done"} =>
                   wm = (IF Consensus(kinds) THEN <<"02", <<"chain", chain>>>> ELSE <<"03">>)
SigVerifies == pc \in {"hash", "done"} => Verifies(Pk(keyKind), sig, keyKind, Cat(WatermarkFor(kinds, chain), Forged(kinds)))
HashRule == pc = "done" => hash = B58("o", Hash(Cat(Forged(kinds), Raw(sig))))
\* the clauses against each other: the signature does not verify under the other watermark; a consensus signature is
\* bound to its chain, a non-consensus signature is the same on every chain
NoCrossWatermark == pc \in {"hash", "done"} =>
   /\ ~Verifies(Pk(keyKind), sig, keyKind, Cat(IF Consensus(kinds) THEN <<"03">> ELSE <<"02", <<"chain", chain>>>>, Forged(kinds)))
   /\ \A c \in ChainIds \ {chain} :
        Verifies(Pk(keyKind), sig, keyKind, Cat(WatermarkFor(kinds, c), Forged(kinds))) <=> ~Consensus(kinds)
=============================================================================
