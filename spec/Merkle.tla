------------------------------ MODULE Merkle ------------------------------
(* Tezos Merkle roots over Blake2b-256 (src/pytezos/crypto/hash.py): operation list hash,
   operation list list hash and block payload hash.  Property C31.

   Hashes are symbolic: the hash of the concatenation of the byte strings denoted by
   t1 .. tk is the term <<"H", <<t1, .., tk>>>>.  Atoms are <<"op", j, t>> (the t-th
   operation hash of list j), <<"pred">> (predecessor block hash, 32 bytes) and
   <<"round">> (payload round, int32 big endian).  The replay interprets "H" with
   blake2b-256 and the atoms with concrete byte strings.

   The *reference* is declarative: the list of leaf hashes is padded to the next power of
   two with copies of the last leaf and the root of the full binary tree over it is taken;
   the empty list has the hash of the empty string.  The *machine* is the in-place
   work-array reduction (one action per hash written into the array), as in Tezos'
   Blake2B.Make_merkle_tree and in _reduce_operation_hashes.  TLC checks that both agree. *)
EXTENDS Integers, Sequences, TLC
CONSTANTS MaxLen,       \* operation list hash / payload hash: lists of 0..MaxLen hashes
          MaxOuter,     \* list list hash: all shapes with <= MaxOuter inner lists ..
          InnerLens,    \* .. whose lengths are drawn from this set,
          MaxOuterLong  \* and one shape (inner lengths j % 4) for every outer length <= MaxOuterLong

Hash(ts)   == <<"H", ts>>
Leaf(x)    == Hash(<<x>>)
Node(l, r) == Hash(<<l, r>>)
Empty      == Hash(<<>>)

\* ---------------- the reference (what C31 demands) ----------------
RECURSIVE Pow2From(_, _)
Pow2From(k, n) == IF k >= n THEN k ELSE Pow2From(2 * k, n)
Pow2Ceil(n) == Pow2From(1, n)
PadPow2(s) == [j \in 1..Pow2Ceil(Len(s)) |-> IF j <= Len(s) THEN s[j] ELSE s[Len(s)]]
RECURSIVE Tree(_)
Tree(s) == IF Len(s) = 1 THEN s[1]
           ELSE LET h == Len(s) \div 2
                    l == Tree(SubSeq(s, 1, h))
                    r == Tree(SubSeq(s, h + 1, Len(s)))
                IN Node(l, r)
RefRoot(xs) == IF Len(xs) = 0 THEN Empty ELSE Tree(PadPow2([j \in 1..Len(xs) |-> Leaf(xs[j])]))

Ops(j, len) == [t \in 1..len |-> <<"op", j, t>>]
RefOL(shape, j) == RefRoot(Ops(j, shape[j]))
RefOLL(shape)   == RefRoot([j \in 1..Len(shape) |-> RefOL(shape, j)])
RefPayload(shape) == Hash(<< <<"pred">>, <<"round">>, RefOL(shape, 1) >>)
Reference(mode, shape) == IF mode = "ol" THEN RefOL(shape, 1)
                          ELSE IF mode = "oll" THEN RefOLL(shape) ELSE RefPayload(shape)

\* ---------------- the machine ----------------
VARIABLES mode, shape,      \* the input: "ol" / "payload" with shape = <<n>>, "oll" with the inner lengths
          k, roots,         \* list being reduced (Len(shape) + 1 = the outer list), roots of the finished inner lists
          a, n, i, pc,      \* work array 0..Len(list), length of the current level, loop index
          root
vars == <<mode, shape, k, roots, a, n, i, pc, root>>
input == <<mode, shape>>

Shapes == UNION {[1..o -> InnerLens] : o \in 0..MaxOuter}
          \cup {[j \in 1..o |-> j % 4] : o \in 0..MaxOuterLong}

Init == /\ \/ mode = "ol" /\ shape \in {<<len>> : len \in 0..MaxLen}
           \/ mode = "payload" /\ shape \in {<<len>> : len \in 0..MaxLen}
           \/ mode = "oll" /\ shape \in Shapes
        /\ k = 1 /\ roots = <<>> /\ a = <<>> /\ n = 0 /\ i = 0 /\ pc = "start" /\ root = <<"none">>

Cur == IF k <= Len(shape) THEN Ops(k, shape[k]) ELSE roots
m == (n + 1) \div 2

\* the root r of the current list has been computed
Finish(r) == /\ IF mode = "oll" /\ k <= Len(shape)
                THEN roots' = Append(roots, r) /\ k' = k + 1 /\ pc' = "start" /\ root' = root
                ELSE IF mode = "payload"
                THEN root' = r /\ pc' = "payload" /\ UNCHANGED <<roots, k>>
                ELSE root' = r /\ pc' = "done" /\ UNCHANGED <<roots, k>>

Start == /\ pc = "start"
         /\ LET xs == Cur IN
              IF Len(xs) = 0 THEN Finish(Empty) /\ UNCHANGED <<a, n, i>>
              ELSE IF Len(xs) = 1 THEN Finish(Leaf(xs[1])) /\ UNCHANGED <<a, n, i>>
              ELSE /\ a' = [j \in 0..Len(xs) |-> Leaf(xs[IF j < Len(xs) THEN j + 1 ELSE Len(xs)])]
                   /\ n' = Len(xs) /\ i' = 0 /\ pc' = "pair"
                   /\ UNCHANGED <<roots, k, root>>
         /\ UNCHANGED input
Pair == /\ pc = "pair"
        /\ IF i < m
           THEN a' = [a EXCEPT ![i] = Node(a[2 * i], a[2 * i + 1])] /\ i' = i + 1 /\ pc' = pc
           ELSE pc' = "pad" /\ UNCHANGED <<a, i>>
        /\ UNCHANGED <<input, k, roots, n, root>>
Pad == /\ pc = "pad"
       /\ a' = [a EXCEPT ![m] = Node(a[n], a[n])]
       /\ pc' = "level"
       /\ UNCHANGED <<input, k, roots, n, i, root>>
Level == /\ pc = "level"
         /\ IF m = 1 THEN Finish(a[0]) /\ UNCHANGED <<a, n, i>>
            ELSE IF m % 2 = 0 THEN n' = m /\ i' = 0 /\ pc' = "pair" /\ UNCHANGED <<a, roots, k, root>>
            ELSE /\ a' = [a EXCEPT ![m + 1] = a[m]]
                 /\ n' = m + 1 /\ i' = 0 /\ pc' = "pair" /\ UNCHANGED <<roots, k, root>>
         /\ UNCHANGED input
Payload == /\ pc = "payload"
           /\ root' = Hash(<< <<"pred">>, <<"round">>, root >>)
           /\ pc' = "done"
           /\ UNCHANGED <<input, k, roots, a, n, i>>
Next == Start \/ Pair \/ Pad \/ Level \/ Payload
Spec == Init /\ [][Next]_vars /\ WF_vars(Next)

\* ---------------- C31 ----------------
RootIsReference == pc = "done" => root = Reference(mode, shape)
\* every inner root of a list list hash is the reference root of that list
InnerRootsAreReference == \A j \in 1..Len(roots) : roots[j] = RefOL(shape, j)
\* why the reduction is right: at the start of every level the array holds the level in a[0..n-1] and, in a[n],
\* the root of a subtree of the current height made of copies of the last leaf; padding the level with that
\* subtree to a power of two gives the reference root
LevelSeq == [j \in 1..Pow2Ceil(n) |-> IF j <= n THEN a[j - 1] ELSE a[n]]
LevelInvariant == pc = "pair" /\ i = 0 => Tree(LevelSeq) = RefRoot(Cur)
\* all array accesses stay inside the array of Len(list) + 1 cells
IndexInBounds == pc \in {"pair", "pad", "level"} =>
                   /\ DOMAIN a = 0..Len(Cur)
                   /\ n \in DOMAIN a /\ m \in DOMAIN a
                   /\ (pc = "pair" /\ i < m => 2 * i + 1 \in DOMAIN a)
                   /\ (pc = "level" /\ m # 1 /\ m % 2 = 1 => m + 1 \in DOMAIN a)
\* the reference itself has the shape the property statement describes
RECURSIVE LeavesOf(_)
LeavesOf(t) == IF Len(t[2]) = 2 /\ t[2][1][1] = "H" /\ t[2][2][1] = "H"
               THEN LET l == LeavesOf(t[2][1]) r == LeavesOf(t[2][2]) IN l \o r
               ELSE <<t>>
IsPow2(x) == Pow2Ceil(x) = x
ReferenceShape == pc = "start" /\ k <= Len(shape) /\ shape[k] > 0 =>
                    LET xs == Cur
                        ls == LeavesOf(RefRoot(xs)) IN
                    /\ IsPow2(Len(ls)) /\ Len(ls) >= Len(xs) /\ Len(ls) < 2 * Len(xs)
                    /\ \A j \in 1..Len(ls) : ls[j] = Leaf(xs[IF j <= Len(xs) THEN j ELSE Len(xs)])
Terminates == <>(pc = "done")
\* Leg B export: one line per input
EmitDone == pc = "done" => PrintT(<<"OUT", mode, shape, root>>)
=============================================================================
