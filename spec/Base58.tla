------------------------------ MODULE Base58 ------------------------------
(* Base58Check typed encodings (src/pytezos/crypto/encoding.py).  Property C09.

   Text and bytes are Seq(0..255) (text = ASCII codes).  Big numbers are BigInt magnitudes
   (little-endian base-256 limbs).  The kind table is a CONSTANT read from the running code:
   Rows[i] = <<human prefix (text), encoded length, binary prefix (bytes), payload length>>.

   encode(kind, payload)  = B58(binary prefix \o payload \o Cksum(binary prefix \o payload))
   Cksum (first four bytes of sha256(sha256(.))) is UNINTERPRETED here: an input carries the
   four checksum bytes explicitly; for an "enc" input they are, by definition of the input,
   the value of Cksum at that point; for a "dec" input the model returns a *candidate*
   <<"cand", row, payload, body, carried>> and the text is valid iff Cksum(body) = carried,
   which the replay harness interprets with hashlib.

   The machine converts like the base58 library does, by repeated division (encode) and
   multiply-add (decode); one action handles three base-58 digits (division by 58^3), which
   keeps every intermediate below 2^31.  B58 / UnB58 are the digit-by-digit definitions,
   B58F / UnB58F the same conversions three digits at a time in closed form.  The invariants
   say that machine and definitions agree, that base 58 with the leading-zero-byte rule is
   invertible, that every encoding of a consistent row has the documented shape (the end
   points bound everything in between), and that the decoder (row found by text length and
   human prefix, then byte length and binary prefix checked) accepts exactly the encodings. *)
EXTENDS Integers, Sequences, FiniteSets, TLC, BigInt

CONSTANTS Rows,      \* the kind table
          Classes,   \* abstract payload/checksum classes explored per row (Leg A)
          Cases,     \* concrete inputs (Leg B): <<"enc", hp, payload, ck>> | <<"dec", text>>
          Deep,      \* TRUE: also compare with the digit-by-digit definitions on every input
          OKRows,    \* claimed set of consistent rows   } TLC does not keep definitions that depend on
          TableOK    \* claimed: no two rows overlap     } Rows, so both are passed in and verified once

HP(i) == Rows[i][1]
ELen(i) == Rows[i][2]
BP(i) == Rows[i][3]
PLen(i) == Rows[i][4]
RowIds == DOMAIN Rows

\* ---------------------------------------------------------------- sequences
RevS(s) == [i \in 1..Len(s) |-> s[Len(s) - i + 1]]
Fill(n, b) == [i \in 1..n |-> b]
IsPrefix(p, s) == Len(p) <= Len(s) /\ SubSeq(s, 1, Len(p)) = p
RECURSIVE LeadCount(_, _)          \* number of leading elements equal to x
LeadCount(s, x) == IF s = <<>> \/ Head(s) # x THEN 0 ELSE 1 + LeadCount(Tail(s), x)
DropS(s, n) == IF n >= Len(s) THEN <<>> ELSE SubSeq(s, n + 1, Len(s))

\* ---------------------------------------------------------------- base 58
\* "123456789ABCDEFGHJKLMNPQRSTUVWXYZabcdefghijkmnopqrstuvwxyz" (no 0 O I l)
Alphabet == [i \in 1..9 |-> 48 + i] \o [i \in 1..8 |-> 64 + i] \o [i \in 1..5 |-> 73 + i]
            \o [i \in 1..11 |-> 79 + i] \o [i \in 1..11 |-> 96 + i] \o [i \in 1..14 |-> 108 + i]
One == 49
CharOf(d) == IF d < 9 THEN 49 + d ELSE IF d < 17 THEN 56 + d ELSE IF d < 22 THEN 57 + d
             ELSE IF d < 33 THEN 58 + d ELSE IF d < 44 THEN 64 + d ELSE 65 + d
DigitOf(c) == IF c >= 49 /\ c <= 57 THEN c - 49 ELSE IF c >= 65 /\ c <= 72 THEN c - 56
              ELSE IF c >= 74 /\ c <= 78 THEN c - 57 ELSE IF c >= 80 /\ c <= 90 THEN c - 58
              ELSE IF c >= 97 /\ c <= 107 THEN c - 64 ELSE IF c >= 109 /\ c <= 122 THEN c - 65 ELSE -1
AlphabetRight == /\ Len(Alphabet) = 58 /\ \A d \in 0..57 : CharOf(d) = Alphabet[d + 1] /\ DigitOf(Alphabet[d + 1]) = d
                 /\ \A c \in 0..255 : DigitOf(c) >= 0 => \E d \in 0..57 : Alphabet[d + 1] = c
AllDigits(s) == \A j \in DOMAIN s : DigitOf(s[j]) >= 0
Chars(ds) == [i \in 1..Len(ds) |-> CharOf(ds[i])]
BytesToMag(b) == MTrim(RevS(b))

\* the definition, digit by digit
RECURSIVE Digits58(_)              \* magnitude -> base-58 digits, most significant first
Digits58(m) == IF m = <<>> THEN <<>>
               ELSE LET qr == MDivSmall(m, 58)
                        r == Digits58(qr[1])
                    IN Append(r, qr[2])
\* leading zero BYTES become leading '1' characters, the rest is the number in base 58
B58(b) == Fill(LeadCount(b, 0), One) \o Chars(Digits58(BytesToMag(b)))
RECURSIVE Num58(_)                 \* digits, most significant first -> magnitude (Horner)
Num58(ds) == IF ds = <<>> THEN <<>>
             ELSE LET r == Num58(SubSeq(ds, 1, Len(ds) - 1))
                  IN MAdd(MMulSmall(r, 58), MFromNat(ds[Len(ds)]))
UnB58(s) == IF ~AllDigits(s) THEN <<FALSE, <<>>>>
            ELSE LET lz == LeadCount(s, One)
                     ds == [i \in 1..Len(s) - lz |-> DigitOf(s[lz + i])]
                 IN <<TRUE, Fill(lz, 0) \o RevS(Num58(ds))>>

\* the same, three digits per big-number operation
K3 == 58 * 58 * 58
Three(r) == <<r \div (58 * 58), (r \div 58) % 58, r % 58>>
Val(ds) == IF Len(ds) = 1 THEN ds[1] ELSE IF Len(ds) = 2 THEN ds[1] * 58 + ds[2] ELSE (ds[1] * 58 + ds[2]) * 58 + ds[3]
Pow58(n) == IF n = 1 THEN 58 ELSE IF n = 2 THEN 58 * 58 ELSE K3
RECURSIVE Digits58F(_)
Digits58F(m) == IF m = <<>> THEN <<>>
                ELSE LET qr == MDivSmall(m, K3)
                         r == Digits58F(qr[1])
                     IN r \o Three(qr[2])
B58F(b) == LET ds == Digits58F(BytesToMag(b)) IN
           Fill(LeadCount(b, 0), One) \o Chars(DropS(ds, LeadCount(ds, 0)))
RECURSIVE Num58F(_)                \* chunks of three from the left, the last one may be shorter
Num58F(ds) == IF ds = <<>> THEN <<>>
              ELSE LET n == IF Len(ds) % 3 = 0 THEN 3 ELSE Len(ds) % 3
                       r == Num58F(SubSeq(ds, 1, Len(ds) - n))
                   IN MAdd(MMulSmall(r, Pow58(n)), MFromNat(Val(SubSeq(ds, Len(ds) - n + 1, Len(ds)))))
UnB58F(s) == IF ~AllDigits(s) THEN <<FALSE, <<>>>>
             ELSE LET lz == LeadCount(s, One)
                      ds == [i \in 1..Len(s) - lz |-> DigitOf(s[lz + i])]
                  IN <<TRUE, Fill(lz, 0) \o RevS(Num58F(ds))>>

\* ---------------------------------------------------------------- the table
\* (i) end points: every payload and every checksum lies between them; for a fixed byte length
\* and a fixed number of leading zero bytes the text is monotone in the integer value.
Lo(i) == B58F(BP(i) \o Fill(PLen(i) + 4, 0))
Hi(i) == B58F(BP(i) \o Fill(PLen(i) + 4, 255))
RowFact(i) == <<Len(Lo(i)), Len(Hi(i)), IsPrefix(HP(i), Lo(i)), IsPrefix(HP(i), Hi(i)),
                \E j \in DOMAIN BP(i) : BP(i)[j] # 0>>
RowOK(i) == i \in OKRows
\* (ii) two rows that could match the same text / the same (prefix, payload length) request
Overlap(i, j) == i # j /\ ELen(i) = ELen(j) /\ (IsPrefix(HP(i), HP(j)) \/ IsPrefix(HP(j), HP(i)))
Overlaps == {<<i, j>> \in RowIds \X RowIds : i < j /\ Overlap(i, j)}
EncDups == {<<i, j>> \in RowIds \X RowIds : i < j /\ HP(i) = HP(j) /\ PLen(i) = PLen(j)}
BadChars == {i \in RowIds : ~AllDigits(HP(i))}

\* ---------------------------------------------------------------- inputs
ClassPayload(c, n) ==
  CASE c = "zero" -> Fill(n, 0)      [] c = "ones" -> Fill(n, 255)
    [] c = "zero-ff" -> Fill(n, 0)   [] c = "ones-00" -> Fill(n, 255)
    [] c = "low" -> Fill(n - 1, 0) \o <<1>>
    [] c = "high" -> <<128>> \o Fill(n - 1, 0)
    [] c = "mid" -> [j \in 1..n |-> (37 * j + 11) % 256]
ClassCk(c) ==
  CASE c = "zero" -> Fill(4, 0)      [] c = "ones" -> Fill(4, 255)
    [] c = "zero-ff" -> Fill(4, 255) [] c = "ones-00" -> Fill(4, 0)
    [] c = "low" -> <<0, 0, 0, 1>>   [] c = "high" -> <<128, 0, 0, 0>>
    [] c = "mid" -> <<18, 52, 86, 120>>
AbsInput(i, c) == <<"enc", HP(i), ClassPayload(c, PLen(i)), ClassCk(c)>>

VARIABLES cid,    \* 0 for an abstract input, else index into Cases
          inp, pc, erow, drow, byts, num, z, k, str, res
vars == <<cid, inp, pc, erow, drow, byts, num, z, k, str, res>>

Blank == /\ pc = "start" /\ erow = 0 /\ drow = 0 /\ byts = <<>> /\ num = <<>> /\ z = 0 /\ k = 0
         /\ str = <<>> /\ res = <<"none">>
Init == /\ \/ cid = 0 /\ inp \in {AbsInput(i, c) : i \in RowIds, c \in Classes}
           \/ cid \in DOMAIN Cases /\ inp = Cases[cid]
        /\ Blank

Finish(r) == res' = r /\ pc' = "done"

\* ---- encode: base58_encode(payload, human prefix) ----
\* during "ediv" str holds digit values (most significant first), afterwards text
EncLookup == /\ pc = "start" /\ inp[1] = "enc"
             /\ LET M == {i \in RowIds : HP(i) = inp[2] /\ PLen(i) = Len(inp[3])} IN
                IF M = {}
                THEN Finish(<<"rej", "nokind">>) /\ UNCHANGED <<erow, byts, num, z>>
                ELSE LET i == CHOOSE i \in M : \A j \in M : i <= j
                         b == BP(i) \o inp[3] \o inp[4] IN
                     /\ erow' = i /\ byts' = b /\ z' = LeadCount(b, 0) /\ num' = BytesToMag(b)
                     /\ pc' = "ediv" /\ UNCHANGED res
             /\ UNCHANGED <<cid, inp, drow, k, str>>
EncDiv == /\ pc = "ediv"
          /\ IF num = <<>>
             THEN /\ str' = Fill(z, One) \o Chars(DropS(str, LeadCount(str, 0)))
                  /\ pc' = "encoded" /\ UNCHANGED num
             ELSE LET qr == MDivSmall(num, K3) IN
                  num' = qr[1] /\ str' = Three(qr[2]) \o str /\ UNCHANGED pc
          /\ UNCHANGED <<cid, inp, erow, drow, byts, z, k, res>>
\* the produced text is handed to the decoder
EncToDec == /\ pc = "encoded" /\ pc' = "dlookup"
            /\ UNCHANGED <<cid, inp, erow, drow, byts, num, z, k, str, res>>

\* ---- decode: base58_decode(text) ----
DecStart == /\ pc = "start" /\ inp[1] = "dec"
            /\ str' = inp[2] /\ pc' = "dlookup"
            /\ UNCHANGED <<cid, inp, erow, drow, byts, num, z, k, res>>
DecLookup == /\ pc = "dlookup"
             /\ LET M == {i \in RowIds : Len(str) = ELen(i) /\ IsPrefix(HP(i), str)} IN
                IF M = {}
                THEN Finish(<<"rej", "nomatch">>) /\ UNCHANGED <<drow, num, z, k, byts>>
                ELSE IF ~AllDigits(str)
                THEN Finish(<<"rej", "badchar">>) /\ UNCHANGED <<drow, num, z, k, byts>>
                ELSE /\ drow' = CHOOSE i \in M : \A j \in M : i <= j
                     /\ num' = <<>> /\ z' = LeadCount(str, One) /\ k' = LeadCount(str, One) + 1
                     /\ byts' = <<>> /\ pc' = "dmul" /\ UNCHANGED res
             /\ UNCHANGED <<cid, inp, erow, str>>
\* k = position of the next unread character; chunks are aligned to the end of the text
DecMul == /\ pc = "dmul"
          /\ IF k > Len(str)
             THEN /\ byts' = Fill(z, 0) \o RevS(num) /\ pc' = "dcheck" /\ UNCHANGED <<num, k>>
             ELSE LET left == Len(str) - k + 1
                      n == IF left % 3 = 0 THEN 3 ELSE left % 3
                      ds == [j \in 1..n |-> DigitOf(str[k + j - 1])] IN
                  /\ num' = MAdd(MMulSmall(num, Pow58(n)), MFromNat(Val(ds)))
                  /\ k' = k + n /\ UNCHANGED <<pc, byts>>
          /\ UNCHANGED <<cid, inp, erow, drow, str, z, res>>
DecCheck == /\ pc = "dcheck"
            /\ LET n == Len(BP(drow)) IN
               IF Len(byts) # n + PLen(drow) + 4 THEN Finish(<<"badlen", drow, byts>>)
               ELSE IF ~IsPrefix(BP(drow), byts) THEN Finish(<<"off", drow, byts>>)     \* human prefix known, binary prefix is not the kind's
               ELSE Finish(<<"cand", drow, SubSeq(byts, n + 1, n + PLen(drow)),
                              SubSeq(byts, 1, n + PLen(drow)), DropS(byts, n + PLen(drow))>>)
            /\ UNCHANGED <<cid, inp, erow, drow, byts, num, z, k, str>>
Next == EncLookup \/ EncDiv \/ EncToDec \/ DecStart \/ DecLookup \/ DecMul \/ DecCheck
Spec == Init /\ [][Next]_vars

\* ---------------------------------------------------------------- C09
\* the machine computes the conversions as defined (digit-by-digit definition: on the lower end
\* points always, on everything when Deep)
UseDef == Deep \/ (cid = 0 /\ inp[3][1] = 0 /\ inp[4][1] = 0)
EncodeStepwise == pc = "encoded" => /\ cid = 0 => str = B58F(byts)
                                    /\ UseDef => str = B58(byts)
DecodeStepwise == pc = "dcheck" => /\ cid = 0 => UnB58F(str) = <<TRUE, byts>>
                                   /\ UseDef => UnB58(str) = <<TRUE, byts>>
\* base 58 with the leading-zero rule is invertible: decoding what was encoded gives the bytes back
Base58Invertible == pc = "dcheck" /\ inp[1] = "enc" => byts = BP(erow) \o inp[3] \o inp[4]
\* every encoding of a consistent row has the documented human prefix and length
\* (the monotonicity argument, checked on every class and every concrete payload)
EncodedShape == pc = "encoded" /\ RowOK(erow) => Len(str) = ELen(erow) /\ IsPrefix(HP(erow), str)
\* decoding an encoding returns the kind and the payload
RoundTrip == pc = "done" /\ inp[1] = "enc" /\ erow # 0 /\ RowOK(erow) /\ TableOK =>
               res = <<"cand", erow, inp[3], BP(erow) \o inp[3], inp[4]>>
\* a candidate is exactly an encoding of its row (re-encoding gives the text); at most one row matches a text
BytesOfRow(u, i) == u[1] /\ Len(u[2]) = Len(BP(i)) + PLen(i) + 4 /\ IsPrefix(BP(i), u[2])
AcceptedIsEncoding == pc = "done" /\ res[1] = "cand" =>
                        /\ Len(res[3]) = PLen(res[2]) /\ Len(res[5]) = 4 /\ res[4] = BP(res[2]) \o res[3]
                        /\ inp[1] = "dec" => str = B58F(res[4] \o res[5])
Unambiguous == pc = "done" /\ TableOK =>
                 Cardinality({i \in RowIds : Len(str) = ELen(i) /\ IsPrefix(HP(i), str)}) <= 1
\* what is not accepted is not the encoding of any payload of any consistent kind: finding the
\* row by (text length, human prefix) loses nothing against finding it by binary prefix
RejectedIsNoEncoding == pc = "done" /\ res[1] \in {"rej", "badlen", "off"} /\ inp[1] = "dec" =>
                          LET u == UnB58F(str) IN \A i \in RowIds : RowOK(i) => ~BytesOfRow(u, i)

\* ---------------------------------------------------------------- once per run
Designated == pc = "start" /\ cid = 0 /\ inp = AbsInput(1, CHOOSE c \in Classes : TRUE)
\* the claims OKRows / TableOK are compared by the harness with the records printed below; EncodedShape on the
\* end points (RowFact = what the machine computes for the classes "zero" and "ones") checks OKRows as well
ClaimsRight == Designated => AlphabetRight
\* ---------------------------------------------------------------- export for Leg B
\* the end points of every row are inputs of the machine (classes "zero" and "ones"): their shape is printed there
IsEndPoint == cid = 0 /\ (inp = AbsInput(erow, "zero") \/ inp = AbsInput(erow, "ones"))
Emit == /\ (Designated => PrintT(<<"OUT", "table", Overlaps, EncDups, BadChars>>))
        /\ (pc = "encoded" /\ IsEndPoint =>
              PrintT(<<"OUT", "end", erow, inp[3][1], Len(str), IsPrefix(HP(erow), str), \E j \in DOMAIN BP(erow) : BP(erow)[j] # 0>>))
        /\ (pc = "done" /\ cid # 0 => PrintT(<<"OUT", "case", cid, erow, str, res>>))
=============================================================================
