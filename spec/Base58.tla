------------------------------ MODULE Base58 ------------------------------
(* Base58Check typed encodings (src/pytezos/crypto/encoding.py).  Property C09.

   Text and bytes are Seq(0..255) (text = ASCII codes).  Big numbers are BigInt magnitudes
   (little-endian base-256 limbs).  The kind table is a CONSTANT read from the running code:
   Rows[i] = <<human prefix (text), encoded length, binary prefix (bytes), payload length>>.

   encode(kind, payload)  = B58(binary prefix \o payload \o Cksum(binary prefix \o payload))
   Cksum (first four bytes of sha256(sha256(.))) is UNINTERPRETED here: an input carries the
   four checksum bytes explicitly; for an "enc" input they are, by definition of the input,
   the value of Cksum at that point; for a "dec" input the model returns a *candidate*
   <<"cand", row, payload, body, carried>> and the string is valid iff Cksum(body) = carried,
   which the replay harness interprets with hashlib.

   The machine performs the conversions digit by digit like the base58 library does (one
   action per division by 58 / per multiply-add), the operators B58 / UnB58 state them
   declaratively; the invariants say that the two agree, that base-58 is invertible
   including the leading-zero-byte rule, that every encoding of a consistent row has the
   documented shape (the end points bound everything in between), and that the decoder
   (row found by length and human prefix, then binary prefix and length checked) accepts
   exactly the encodings. *)
EXTENDS Integers, Sequences, FiniteSets, TLC, BigInt

CONSTANTS Rows,      \* the kind table
          Classes,   \* abstract payload/checksum classes explored per row (Leg A)
          Cases      \* concrete inputs (Leg B): <<"enc", hp, payload, ck>> | <<"dec", text>>

HP(i) == Rows[i][1]
ELen(i) == Rows[i][2]
BP(i) == Rows[i][3]
PLen(i) == Rows[i][4]
RowIds == DOMAIN Rows

\* ---------------------------------------------------------------- sequences
RevS(s) == [i \in 1..Len(s) |-> s[Len(s) - i + 1]]
Fill(n, b) == [i \in 1..n |-> b]
IsPrefix(p, s) == Len(p) <= Len(s) /\ SubSeq(s, 1, Len(p)) = p
RECURSIVE LeadCount(_, _)          \* number of leading elements equal to x
LeadCount(s, x) == IF s = <<>> \/ Head(s) # x THEN 0 ELSE 1 + LeadCount(Tail(s), x)
DropS(s, n) == IF n >= Len(s) THEN <<>> ELSE SubSeq(s, n + 1, Len(s))

\* ---------------------------------------------------------------- base 58
\* "123456789ABCDEFGHJKLMNPQRSTUVWXYZabcdefghijkmnopqrstuvwxyz" (no 0 O I l)
Alphabet == [i \in 1..9 |-> 48 + i] \o [i \in 1..8 |-> 64 + i] \o [i \in 1..5 |-> 73 + i]
            \o [i \in 1..11 |-> 79 + i] \o [i \in 1..11 |-> 96 + i] \o [i \in 1..14 |-> 108 + i]
One == Alphabet[1]
DigitOf(c) == IF \E i \in 1..58 : Alphabet[i] = c THEN (CHOOSE i \in 1..58 : Alphabet[i] = c) - 1 ELSE -1

BytesToMag(b) == MTrim(RevS(b))
RECURSIVE Digits58(_)              \* magnitude -> base-58 digits, most significant first
Digits58(m) == IF m = <<>> THEN <<>>
               ELSE LET qr == MDivSmall(m, 58)
                        r == Digits58(qr[1])
                    IN Append(r, qr[2])
\* leading zero BYTES become leading '1' characters, the rest is the number in base 58
B58(b) == LET ds == Digits58(BytesToMag(b)) IN
          Fill(LeadCount(b, 0), One) \o [i \in 1..Len(ds) |-> Alphabet[ds[i] + 1]]
RECURSIVE Num58(_)                 \* digits, most significant first -> magnitude (Horner)
Num58(ds) == IF ds = <<>> THEN <<>>
             ELSE LET r == Num58(SubSeq(ds, 1, Len(ds) - 1))
                  IN MAdd(MMulSmall(r, 58), MFromNat(ds[Len(ds)]))
UnB58(s) == IF \E k \in DOMAIN s : DigitOf(s[k]) < 0 THEN <<FALSE, <<>>>>
            ELSE LET z == LeadCount(s, One)
                     ds == [i \in 1..Len(s) - z |-> DigitOf(s[z + i])]
                 IN <<TRUE, Fill(z, 0) \o RevS(Num58(ds))>>

\* ---------------------------------------------------------------- the table
\* (i) end points: every payload and every checksum lies between them, encoding is monotone
\* in the integer value for a fixed byte length and a fixed number of leading zero bytes.
Lo(i) == B58(BP(i) \o Fill(PLen(i) + 4, 0))
Hi(i) == B58(BP(i) \o Fill(PLen(i) + 4, 255))
RowFacts == [i \in RowIds |-> <<Len(Lo(i)), Len(Hi(i)), IsPrefix(HP(i), Lo(i)), IsPrefix(HP(i), Hi(i)),
                                 \E k \in DOMAIN BP(i) : BP(i)[k] # 0>>]
RowOK(i) == RowFacts[i] = <<ELen(i), ELen(i), TRUE, TRUE, TRUE>>
\* (ii) two rows that could match the same string / the same (prefix, payload) request
Overlap(i, j) == i # j /\ ELen(i) = ELen(j) /\ (IsPrefix(HP(i), HP(j)) \/ IsPrefix(HP(j), HP(i)))
Overlaps == {<<i, j>> \in RowIds \X RowIds : i < j /\ Overlap(i, j)}
EncDups == {<<i, j>> \in RowIds \X RowIds : i < j /\ HP(i) = HP(j) /\ PLen(i) = PLen(j)}
BadChars == {i \in RowIds : \E k \in DOMAIN HP(i) : DigitOf(HP(i)[k]) < 0}
TableOK == Overlaps = {} /\ EncDups = {}

\* ---------------------------------------------------------------- inputs
ClassPayload(c, n) ==
  CASE c = "zero" -> Fill(n, 0)      [] c = "ones" -> Fill(n, 255)
    [] c = "zero-ff" -> Fill(n, 0)   [] c = "ones-00" -> Fill(n, 255)
    [] c = "low" -> Fill(n - 1, 0) \o <<1>>
    [] c = "high" -> <<128>> \o Fill(n - 1, 0)
    [] c = "mid" -> [k \in 1..n |-> (37 * k + 11) % 256]
ClassCk(c) ==
  CASE c = "zero" -> Fill(4, 0)      [] c = "ones" -> Fill(4, 255)
    [] c = "zero-ff" -> Fill(4, 255) [] c = "ones-00" -> Fill(4, 0)
    [] c = "low" -> <<0, 0, 0, 1>>   [] c = "high" -> <<128, 0, 0, 0>>
    [] c = "mid" -> <<18, 52, 86, 120>>
AbsInput(i, c) == <<"enc", HP(i), ClassPayload(c, PLen(i)), ClassCk(c)>>

VARIABLES cid,    \* 0 for an abstract input, else index into Cases
          inp, pc, erow, drow, byts, num, z, k, str, res
vars == <<cid, inp, pc, erow, drow, byts, num, z, k, str, res>>

Blank == /\ pc = "start" /\ erow = 0 /\ drow = 0 /\ byts = <<>> /\ num = <<>> /\ z = 0 /\ k = 0
         /\ str = <<>> /\ res = <<"none">>
Init == /\ \/ cid = 0 /\ inp \in {AbsInput(i, c) : i \in RowIds, c \in Classes}
           \/ cid \in DOMAIN Cases /\ inp = Cases[cid]
        /\ Blank

Finish(r) == res' = r /\ pc' = "done"

\* ---- encode: base58_encode(payload, human prefix) ----
EncLookup == /\ pc = "start" /\ inp[1] = "enc"
             /\ LET M == {i \in RowIds : HP(i) = inp[2] /\ PLen(i) = Len(inp[3])} IN
                IF M = {}
                THEN Finish(<<"rej", "nokind">>) /\ UNCHANGED <<erow, byts, num, z>>
                ELSE LET i == CHOOSE i \in M : \A j \in M : i <= j
                         b == BP(i) \o inp[3] \o inp[4] IN
                     /\ erow' = i /\ byts' = b /\ z' = LeadCount(b, 0) /\ num' = BytesToMag(b)
                     /\ pc' = "ediv" /\ UNCHANGED res
             /\ UNCHANGED <<cid, inp, drow, k, str>>
EncDiv == /\ pc = "ediv"
          /\ IF num = <<>>
             THEN str' = Fill(z, One) \o str /\ pc' = "encoded" /\ UNCHANGED num
             ELSE LET qr == MDivSmall(num, 58) IN
                  num' = qr[1] /\ str' = <<Alphabet[qr[2] + 1]>> \o str /\ UNCHANGED pc
          /\ UNCHANGED <<cid, inp, erow, drow, byts, z, k, res>>
\* the produced text is handed to the decoder
EncToDec == /\ pc = "encoded" /\ pc' = "dlookup"
            /\ UNCHANGED <<cid, inp, erow, drow, byts, num, z, k, str, res>>

\* ---- decode: base58_decode(text) ----
DecStart == /\ pc = "start" /\ inp[1] = "dec"
            /\ str' = inp[2] /\ pc' = "dlookup"
            /\ UNCHANGED <<cid, inp, erow, drow, byts, num, z, k, res>>
DecLookup == /\ pc = "dlookup"
             /\ LET M == {i \in RowIds : Len(str) = ELen(i) /\ IsPrefix(HP(i), str)} IN
                IF M = {}
                THEN Finish(<<"rej", "nomatch">>) /\ UNCHANGED <<drow, num, z, k, byts>>
                ELSE /\ drow' = CHOOSE i \in M : \A j \in M : i <= j
                     /\ num' = <<>> /\ z' = 0 /\ k' = 1 /\ byts' = <<>> /\ pc' = "dmul" /\ UNCHANGED res
             /\ UNCHANGED <<cid, inp, erow, str>>
DecMul == /\ pc = "dmul"
          /\ IF k > Len(str)
             THEN /\ byts' = Fill(z, 0) \o RevS(num) /\ pc' = "dcheck" /\ UNCHANGED <<num, z, k, res>>
             ELSE LET d == DigitOf(str[k]) IN
                  IF d < 0 THEN Finish(<<"rej", "badchar">>) /\ UNCHANGED <<num, z, k, byts>>
                  ELSE /\ IF num = <<>> /\ d = 0 THEN z' = z + 1 /\ UNCHANGED num
                          ELSE num' = MAdd(MMulSmall(num, 58), MFromNat(d)) /\ UNCHANGED z
                       /\ k' = k + 1 /\ UNCHANGED <<pc, res, byts>>
          /\ UNCHANGED <<cid, inp, erow, drow, str>>
DecCheck == /\ pc = "dcheck"
            /\ LET n == Len(BP(drow)) IN
               IF Len(byts) # n + PLen(drow) + 4 THEN Finish(<<"badlen", drow, byts>>)
               ELSE IF ~IsPrefix(BP(drow), byts) THEN Finish(<<"off", drow, byts>>)     \* human prefix known, binary prefix is not the kind's
               ELSE Finish(<<"cand", drow, SubSeq(byts, n + 1, n + PLen(drow)),
                              SubSeq(byts, 1, n + PLen(drow)), DropS(byts, n + PLen(drow))>>)
            /\ UNCHANGED <<cid, inp, erow, drow, byts, num, z, k, str>>
Next == EncLookup \/ EncDiv \/ EncToDec \/ DecStart \/ DecLookup \/ DecMul \/ DecCheck
Spec == Init /\ [][Next]_vars

\* ---------------------------------------------------------------- C09
\* the digit-by-digit machine computes the declarative conversion, and base 58 is invertible
EncodeStepwise == pc = "encoded" => str = B58(byts)
DecodeStepwise == pc = "dcheck" => UnB58(str) = <<TRUE, byts>>
Base58Invertible == pc = "encoded" => UnB58(str) = <<TRUE, byts>>
\* every encoding of a consistent row has the documented human prefix and length
\* (the monotonicity argument, checked on every class and every concrete payload)
EncodedShape == pc = "encoded" /\ RowOK(erow) => Len(str) = ELen(erow) /\ IsPrefix(HP(erow), str)
\* decoding an encoding returns the kind and the payload
RoundTrip == pc = "done" /\ inp[1] = "enc" /\ erow # 0 /\ RowOK(erow) /\ TableOK =>
               res = <<"cand", erow, inp[3], BP(erow) \o inp[3], inp[4]>>
\* a candidate is exactly an encoding of its row; at most one row matches a text
IsEncodingOf(s, i) == LET u == UnB58(s) IN
                      u[1] /\ Len(u[2]) = Len(BP(i)) + PLen(i) + 4 /\ IsPrefix(BP(i), u[2])
AcceptedIsEncoding == pc = "done" /\ res[1] = "cand" =>
                        /\ str = B58(res[4] \o res[5]) /\ IsPrefix(BP(res[2]), res[4]) /\ Len(res[3]) = PLen(res[2])
                        /\ IsEncodingOf(str, res[2])
Unambiguous == pc = "done" /\ TableOK =>
                 Cardinality({i \in RowIds : Len(str) = ELen(i) /\ IsPrefix(HP(i), str)}) <= 1
\* what is not accepted is not the encoding of any payload of any consistent kind: finding the
\* row by (length, human prefix) loses nothing against finding it by binary prefix
RejectedIsNoEncoding == pc = "done" /\ res[1] \in {"rej", "badlen", "off"} /\ inp[1] = "dec" =>
                          \A i \in RowIds : RowOK(i) => ~IsEncodingOf(str, i)

\* ---------------------------------------------------------------- export for Leg B
Emit == /\ (pc = "start" /\ cid = 0 /\ inp = AbsInput(1, CHOOSE c \in Classes : TRUE) =>
              PrintT(<<"OUT", "table", [i \in RowIds |-> RowFacts[i]], Overlaps, EncDups, BadChars>>))
        /\ (pc = "done" /\ cid # 0 => PrintT(<<"OUT", "case", cid, erow, str, res>>))
=============================================================================
