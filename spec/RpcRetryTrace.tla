------------------------- MODULE RpcRetryTrace -------------------------
(* Leg C for C26: executions of the real RpcNode.request, recorded at the library boundary
   (requests.request / time.sleep stubs and the call's return), are checked to be behaviours
   of RpcRetry.  Many traces per run; a trace that is not a behaviour is reported with
   PrintT(<<"REJECT", ...>>) and the run goes on with the next trace. *)
EXTENDS Integers, Sequences, TLC, Json, IOUtils, TLCExt
CONSTANTS MaxAttempts, InitDelay, MaxDelay, MaxLen
VARIABLES responses, pc, attempt, delay, slept, outcome, tid, l
R == INSTANCE RpcRetry

Traces == JsonDeserialize(IOEnv.TRACE_FILE)
tvars == <<responses, pc, attempt, delay, slept, outcome, tid, l>>

Init == R!Init /\ tid = 1 /\ l = 1 /\ TLCSet(1, 0)

Ev == Traces[tid][l]
ToResp(e) == <<e.code, e.shape, [k \in DOMAIN e.errs |-> <<e.errs[k][1], e.errs[k][2]>>], e.marker>>
ToOut(o) == [k \in DOMAIN o |-> o[k]]

TSend  == Ev.ev = "send" /\ R!Send(ToResp(Ev))
TSleep == Ev.ev = "sleep" /\ R!SleepRetry /\ slept'[Len(slept')] = Ev.ms
TDone  == Ev.ev = "done" /\ R!Finish /\ outcome' = ToOut(Ev.out)
Matches == \/ Ev.ev = "send" /\ pc = "send" /\ Len(responses) < MaxLen
           \/ Ev.ev = "sleep" /\ pc = "classify" /\ R!ShouldRetry /\ delay = Ev.ms
           \/ Ev.ev = "done" /\ pc = "classify" /\ ~R!ShouldRetry /\ R!Result(R!Last, R!Sent) = ToOut(Ev.out)

NextTrace == /\ tid' = tid + 1 /\ l' = 1
             /\ responses' = <<>> /\ pc' = "send" /\ attempt' = 0 /\ delay' = InitDelay
             /\ slept' = <<>> /\ outcome' = <<"pending">>

Next ==
  /\ tid <= Len(Traces)
  /\ IF l > Len(Traces[tid])
     THEN (IF pc = "done" THEN TRUE   \* a complete trace ends with the call's result
           ELSE PrintT(<<"REJECT", tid, l, "trace ends before the call finished", pc>>) /\ TLCSet(1, TLCGet(1) + 1))
          /\ NextTrace
     ELSE IF Matches
          THEN (TSend \/ TSleep \/ TDone) /\ l' = l + 1 /\ tid' = tid
          ELSE /\ PrintT(<<"REJECT", tid, l, Ev, "state", pc, attempt, delay, outcome>>)
               /\ TLCSet(1, TLCGet(1) + 1)
               /\ NextTrace

Spec == Init /\ [][Next]_tvars
\* invariants of RpcRetry are evaluated on every state of every trace
AtMostSix == R!AtMostSix
DelaysMonotoneCapped == R!DelaysMonotoneCapped
RetryOnlyTransient == R!RetryOnlyTransient
FirstSuccessOrLastError == R!FirstSuccessOrLastError
AllConsumed == tid = Len(Traces) + 1
Accepted == TLCGet(1) = 0
=============================================================================
