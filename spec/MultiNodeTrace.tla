------------------------- MODULE MultiNodeTrace -------------------------
EXTENDS Integers, Sequences, TLC, Json, IOUtils, TLCExt
CONSTANTS MaxLen
VARIABLES next, log, tid, l, nn
Traces == JsonDeserialize(IOEnv.TRACE_FILE)
M == INSTANCE MultiNode WITH N <- 1
tvars == <<next, log, tid, l, nn>>
Init == M!Init /\ tid = 1 /\ l = 1 /\ nn = (IF Len(Traces) > 0 THEN Traces[1].n ELSE 1) /\ TLCSet(1, 0)
Ev == Traces[tid].events[l]
NextTrace == tid' = tid + 1 /\ l' = 1 /\ next' = 0 /\ log' = <<>>
             /\ nn' = IF tid + 1 <= Len(Traces) THEN Traces[tid + 1].n ELSE 1
Next == /\ tid <= Len(Traces)
        /\ IF l > Len(Traces[tid].events) THEN NextTrace
           ELSE IF Ev.node = next
                THEN M!RequestN(nn, Ev.outcome) /\ l' = l + 1 /\ UNCHANGED <<tid, nn>>
                ELSE PrintT(<<"REJECT", tid, l, Ev, "expected node", next>>) /\ TLCSet(1, TLCGet(1) + 1) /\ NextTrace
Spec == Init /\ [][Next]_tvars
RoundRobin == M!RoundRobinN(nn)
Accepted == TLCGet(1) = 0
=============================================================================
