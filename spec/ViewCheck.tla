------------------------------ MODULE ViewCheck ------------------------------
(* Acceptance of an on-chain view definition  `view "<name>" <arg type> <ret type> { code }`
   (src/pytezos/michelson/sections/view.py, ViewSection.match).  Property C32.

   Reference (Tezos protocol, script_ir_translator: parse_view_name, check_not_in_view,
   I_SELF): a view is rejected iff
     * its name is longer than 31 characters, or contains a character outside
       a-z A-Z 0-9 _ . % @, or
     * its code contains SELF anywhere, or
     * its code contains TRANSFER_TOKENS, CREATE_CONTRACT or SET_DELEGATE outside a lambda
       body; lambda bodies are the bodies of LAMBDA and LAMBDA_REC and every lambda literal
       inside pushed data (PUSH (lambda ..) {..}, PUSH (pair nat (lambda ..)) (Pair 1 {..}), ..).

   Names are sequences of *character classes*; code is a tree
       body  = sequence of nodes
       node  = <<"I", prim>>             one instruction (prim in Leaves; "NEUTRAL" = any other instruction)
             | <<"C1", body>>            DIP / MAP / ITER / LOOP / LOOP_LEFT ..: one nested body, not a lambda
             | <<"C2", body, body>>      IF / IF_NONE / IF_LEFT / IF_CONS: two nested bodies
             | <<"L", kind, body>>       lambda body: kind in LAMBDA, LAMBDA_REC, PUSH (lambda literal),
                                         PUSHNEST (lambda literal nested in a pushed pair/option/list/or)
   (the nested script of CREATE_CONTRACT is outside the domain: it is always a fixed harmless script).

   The check is modelled the way a checker runs: the name is scanned character by character,
   then the code is walked node by node with an explicit work stack carrying the
   "inside a lambda body" flag, stopping at the first offending instruction.  The property
   is stated declaratively (set of instruction occurrences); TLC checks that both agree. *)
EXTENDS Integers, Sequences, FiniteSets, TLC
CONSTANTS NameLens,     \* set of name lengths
          Fills,        \* character classes filling a name
          Specials,     \* character classes put at one position (first / middle / last)
          Leaves,       \* instruction alphabet of this family
          LamKinds,     \* lambda-body constructors of this family
          CodeSize,     \* code trees with at most this many nodes
          CodeDepth,    \* .. nested at most this deep
          MaxSeq        \* .. with bodies of at most this many nodes

AllowedClasses == {"lower", "upper", "digit", "underscore", "dot", "percent", "at"}
MaxNameLen == 31
Stateful == {"TRANSFER_TOKENS", "CREATE_CONTRACT", "SET_DELEGATE"}

(* ---------------- bounded universes ---------------- *)
NameOf(l, f, s, p) == [k \in 1..l |-> IF k = p THEN s ELSE f]
Names == UNION {{NameOf(l, f, s, p) : f \in Fills, s \in Specials, p \in {1, (l + 1) \div 2, l}} : l \in NameLens}

\* Code trees are generated level by level (nesting depth).  A level is a tuple T of sets, T[s + 1] = the
\* bodies with exactly s nodes, so that each level is computed once from the level below.  The families
\* of nodes are Cartesian products and are pairwise disjoint; they are joined with a right-nested \cup
\* (TLC's UNION and left-nested \cup are quadratic in the size of the result).
RECURSIVE CupAll(_)
CupAll(sets) == IF Len(sets) = 0 THEN {} ELSE IF Len(sets) = 1 THEN sets[1] ELSE sets[1] \cup CupAll(Tail(sets))
RECURSIVE Tab(_, _, _)         \* <<F(lo), .., F(hi)>> as a tuple, every entry evaluated once
Tab(F(_), lo, hi) == IF lo > hi THEN <<>> ELSE <<F(lo)>> \o Tab(F, lo + 1, hi)
NodesFrom(P) ==                \* P: level below; result N, N[s] = nodes with exactly s nodes
  LET NodesOfSize(s) ==
        CupAll((IF s = 1 THEN <<{"I"} \X Leaves>> ELSE <<>>)
               \o <<{"C1"} \X P[s], {"L"} \X LamKinds \X P[s]>>
               \o Tab(LAMBDA j : {"C2"} \X P[j + 1] \X P[s - j], 0, s - 1))
  IN Tab(NodesOfSize, 1, CodeSize)
RECURSIVE BodiesFrom(_, _)
BodiesFrom(N, m) ==            \* T[s + 1] = bodies of at most m nodes drawn from N with exactly s nodes in total
  IF m = 0 THEN Tab(LAMBDA s : IF s = 0 THEN {<<>>} ELSE {}, 0, CodeSize)
  ELSE LET R == BodiesFrom(N, m - 1)
           OfSize(s) == IF s = 0 THEN {<<>>}
                        ELSE CupAll(Tab(LAMBDA k : {<<n>> \o q : n \in N[k], q \in R[s - k + 1]}, 1, s))
       IN Tab(OfSize, 0, CodeSize)
RECURSIVE Level(_)
Level(d) == IF d = 0 THEN BodiesFrom(NodesFrom(Tab(LAMBDA s : {}, 0, CodeSize)), MaxSeq)
            ELSE LET P == Level(d - 1) IN BodiesFrom(NodesFrom(P), MaxSeq)
Codes == CupAll(Level(CodeDepth))

(* ---------------- the checker, step by step ---------------- *)
VARIABLES name, code,          \* the input, fixed after Pick
          pc, i, stack, verdict
vars == <<name, code, pc, i, stack, verdict>>

Items(body, lam) == [k \in 1..Len(body) |-> <<body[k], lam>>]

\* The input is picked by the first action, not by Init: TLC handles a large set of successor states
\* much better than a large set of initial states.
Init == name = <<>> /\ code = <<>> /\ pc = "pick" /\ i = 1 /\ stack = <<>> /\ verdict = "none"
Pick == /\ pc = "pick"
        /\ name' \in Names /\ code' \in Codes
        /\ pc' = "len" /\ UNCHANGED <<i, stack, verdict>>

Reject == pc' = "done" /\ verdict' = "reject" /\ UNCHANGED <<i, stack>>

CheckLen == /\ pc = "len"
            /\ IF Len(name) > MaxNameLen THEN Reject
               ELSE pc' = "chars" /\ UNCHANGED <<i, stack, verdict>>
            /\ UNCHANGED <<name, code>>
CheckChar == /\ pc = "chars"
             /\ IF i > Len(name) THEN pc' = "walk" /\ stack' = Items(code, FALSE) /\ UNCHANGED <<i, verdict>>
                ELSE IF name[i] \notin AllowedClasses THEN Reject
                ELSE i' = i + 1 /\ UNCHANGED <<pc, stack, verdict>>
             /\ UNCHANGED <<name, code>>
Visit == /\ pc = "walk"
         /\ IF stack = <<>> THEN pc' = "done" /\ verdict' = "accept" /\ UNCHANGED <<i, stack>>
            ELSE LET n == Head(stack)[1]
                     lam == Head(stack)[2]
                     rest == Tail(stack) IN
                 CASE n[1] = "I" ->
                        IF n[2] = "SELF" \/ (n[2] \in Stateful /\ ~lam) THEN Reject
                        ELSE stack' = rest /\ UNCHANGED <<pc, i, verdict>>
                   [] n[1] = "C1" -> stack' = Items(n[2], lam) \o rest /\ UNCHANGED <<pc, i, verdict>>
                   [] n[1] = "C2" -> stack' = Items(n[2], lam) \o Items(n[3], lam) \o rest /\ UNCHANGED <<pc, i, verdict>>
                   [] n[1] = "L" -> stack' = Items(n[3], TRUE) \o rest /\ UNCHANGED <<pc, i, verdict>>
         /\ UNCHANGED <<name, code>>
Next == Pick \/ CheckLen \/ CheckChar \/ Visit
Spec == Init /\ [][Next]_vars

(* ---------------- C32, declaratively ---------------- *)
NameOK(nm) == Len(nm) <= MaxNameLen /\ \A k \in DOMAIN nm : nm[k] \in AllowedClasses
RECURSIVE OccB(_, _), OccN(_, _)
OccN(n, lam) ==        \* instruction occurrences <<prim, inside a lambda body>>
  CASE n[1] = "I" -> {<<n[2], lam>>}
    [] n[1] = "C1" -> OccB(n[2], lam)
    [] n[1] = "C2" -> OccB(n[2], lam) \cup OccB(n[3], lam)
    [] n[1] = "L" -> OccB(n[3], TRUE)
OccB(b, lam) == UNION {OccN(b[k], lam) : k \in DOMAIN b}
CodeOK(c) == \A o \in OccB(c, FALSE) : o[1] # "SELF" /\ (o[1] \in Stateful => o[2])
Accepted == NameOK(name) /\ CodeOK(code)

VerdictAgrees == pc = "done" => (verdict = "accept") = Accepted
VerdictSet == (pc = "done") = (verdict # "none")
\* Leg B export: one line per completed check
EmitDone == pc = "done" => PrintT(<<"OUT", name, code, verdict>>)
=============================================================================
