------------------------------ MODULE ClientConfig ------------------------------
(* Client configuration resolution of pytezos (growth of the specification, X08):
   ContextMixin._spawn_context (src/pytezos/context/mixin.py) as used by PyTezosClient.using / .contract /
   .operation_group (src/pytezos/client.py) and ContractInterface.using (src/pytezos/contract/interface.py), the default
   client of src/pytezos/__init__.py, and the per-context state of ExecutionContext (counter cache, reset; impl.py).

   A client is a configuration record over a small heap of connection objects (`shells`) and key objects (`keys`);
   every call that derives an object from a receiver is executed as the code's steps
        Call -> StepShell -> StepKey -> StepScript -> Build
   and produces a NEW object; the receiver is never written.  Accessor calls (get_counter / set_counter / reset on a
   context, client.balance(), client.now()) go through the object's shell: every request is recorded in `reqs`, a
   multi-node shell serves its URLs in round-robin order.

   Universe: URLs, aliases, key pairs and gateways are small integers / strings, made concrete by the harness
   (harness/vf/props/X08.py).  Argument forms (tag-first tuples):
     shell: <<"none">> <<"alias",a>> <<"pool",a>> ('<alias>.pool') <<"url",u>> <<"obj",n>> (a ShellQuery the user built)
            <<"list",u,v>> (a list of URLs: not a documented form, refused as coded) <<"badpool">> ('<unknown>.pool': refused)
     key:   <<"none">> <<"obj",n>> (a Key the user built) <<"alias",k>> (built-in alias) <<"sk",p>> <<"pk",p>> <<"pkh",p>>
            (base58 secret key / public key / public key hash of pair p) <<"file",p>> <<"dict",p>> (faucet file path, faucet
            dict) <<"tzalias",p>> (alias of the tezos-client keychain) <<"unknown">> (no such alias) <<"bad">> (not a key)

   DEVIATION (modelled as coded, operator GwAsCodedDropped): the IPFS gateway is the only configuration field that a
   derived object does not inherit - _spawn_context passes `ipfs_gateway=ipfs_gateway` and the new ExecutionContext
   falls back to the built-in default.  Every object carries both answers: `gw` (as coded) and `gwi` (intended, operator
   GwIntended); the invariant FieldwiseOverride speaks about `gwi`, GwDropAsCoded documents `gw`. *)
EXTENDS Integers, Sequences, FiniteSets, TLC
CONSTANTS AliasUrls,      \* sequence: alias number -> sequence of URLs (the `nodes` table)
          DefaultAlias,   \* the default network
          DefaultPair,    \* key pair of the built-in key
          AliasPair,      \* sequence: built-in key alias number -> key pair
          UserShells,     \* sequence of <<urls, multi>>: ShellQuery objects built by the user
          UserKeys,       \* sequence of <<pair, kind>>: Key objects built by the user
          KnownAddrs,     \* contract addresses existing on every node
          SetValues,      \* arguments of set_counter
          Universes       \* set of bounded universes, each a record [name, shells, keys, modes, gws, blocks (argument universes),
                          \*   addrs (contract addresses asked for), calls (enabled call kinds), depth (calls per history), maxobjs]
VARIABLES uni,      \* the universe of this behaviour (chosen by Init, never changed)
          shells,   \* heap of connection objects [urls, multi, nxt]
          keys,     \* heap of key objects [pair, kind]
          objs,     \* clients / contract interfaces / operation groups, in creation order
          born,     \* history: configuration of every object (and heap sizes) when it was created
          log,      \* public calls with their results
          reqs,     \* <<shell, url>> of every request sent, in order
          pc, pend
vars == <<uni, shells, keys, objs, born, log, reqs, pc, pend>>
ShellArgs == uni.shells
KeyArgs == uni.keys
ModeArgs == uni.modes
GwArgs == uni.gws
BlockArgs == uni.blocks
Addrs == uni.addrs
Calls == uni.calls
MaxCalls == uni.depth
MaxObjs == uni.maxobjs

\* ----- the simulated nodes (state of the account of key pair p at URL u) -----
NodeCtr(u, p) == 100 * u + 10 * p
NodeBal(u, p) == 1000 * u + 7 * p
NodeTs(u) == 50 * u
NodeDelay(u) == u + 3

Shell(urls, multi) == [urls |-> urls, multi |-> multi, nxt |-> 0]
KeyObj(pair, kind) == [pair |-> pair, kind |-> kind]
NoPend == [op |-> "idle", recv |-> 0, sa |-> <<"none">>, ka |-> <<"none">>, ma |-> "none", ga |-> "none", blk |-> "none",
           addr |-> 0, sh |-> 0, ky |-> 0]
RECURSIVE MapShells(_), MapKeys(_)
MapShells(s) == IF s = <<>> THEN <<>> ELSE LET r == MapShells(Tail(s)) IN <<Shell(Head(s)[1], Head(s)[2])>> \o r
MapKeys(s) == IF s = <<>> THEN <<>> ELSE LET r == MapKeys(Tail(s)) IN <<KeyObj(Head(s)[1], Head(s)[2])>> \o r
Config(o) == <<o.kind, o.shell, o.key, o.mode, o.gw, o.gwi, o.block, o.addr>>
ShellCfg(sh) == [s \in 1..Len(sh) |-> <<sh[s].urls, sh[s].multi>>]       \* what a connection object is (not: where its round robin stands)
Snapshot(o, sh, ks) == [cfg |-> Config(o), shells |-> ShellCfg(sh), keys |-> ks]

Init == /\ uni \in Universes
        /\ shells = <<Shell(<<AliasUrls[DefaultAlias][1]>>, FALSE)>> \o MapShells(UserShells)
        /\ keys = <<KeyObj(DefaultPair, "full")>> \o MapKeys(UserKeys)
        /\ objs = <<[kind |-> "client", shell |-> 1, key |-> 1, mode |-> "readable", gw |-> "default", gwi |-> "default",
                     block |-> "head", addr |-> 0, ctr |-> <<"unset">>, parent |-> 0, via |-> NoPend]>>
        /\ born = <<Snapshot(objs[1], shells, keys)>>
        /\ log = <<>> /\ reqs = <<>> /\ pc = "idle" /\ pend = NoPend

\* ----- requests -----
Hit(s) == shells[s].urls[shells[s].nxt + 1]
AfterHit(sh, s) == [sh EXCEPT ![s].nxt = (@ + 1) % Len(sh[s].urls)]

\* ----- calls that derive an object -----
CanCall(k) == pc = "idle" /\ k \in Calls /\ Len(log) < MaxCalls
Start(op, c, sa, ka, ma, ga, blk, addr) ==
  /\ Len(objs) < MaxObjs
  /\ pend' = [op |-> op, recv |-> c, sa |-> sa, ka |-> ka, ma |-> ma, ga |-> ga, blk |-> blk, addr |-> addr, sh |-> 0, ky |-> 0]
  /\ pc' = "shell" /\ UNCHANGED <<shells, keys, objs, born, log, reqs>>
CallUsing(c, sa, ka, ma, ga) == CanCall("using") /\ objs[c].kind = "client" /\ Start("using", c, sa, ka, ma, ga, "none", 0)
CallContract(c, a) == CanCall("contract") /\ objs[c].kind = "client" /\ Start("contract", c, <<"none">>, <<"none">>, "none", "none", "none", a)
CallOpg(c) == CanCall("opg") /\ objs[c].kind = "client" /\ Start("opg", c, <<"none">>, <<"none">>, "none", "none", "none", 0)
\* ContractInterface.using of an interface that has an address: documented to ignore shell and key ("if address is
\* undefined you can specify RPC endpoint, and private key"); the address is passed on, the script is read again.
CallCUsing(c, sa, ka, blk, ma, ga) == CanCall("cusing") /\ objs[c].kind = "contract" /\ Start("cusing", c, sa, ka, ma, ga, blk, objs[c].addr)

Finish(res) == /\ log' = Append(log, <<"spawn", pend.recv, pend, res>>) /\ pc' = "idle" /\ pend' = NoPend
Refuse == Finish(0) /\ UNCHANGED <<objs, born>>

EffSa == IF pend.op = "cusing" THEN <<"none">> ELSE pend.sa
EffKa == IF pend.op = "cusing" THEN <<"none">> ELSE pend.ka
\* AS CODED (ListAsCodedRefused): `using` takes a network name, a URL or a ShellQuery (signature and docstring); a plain list
\* of URLs is refused ("unexpected shell"), several nodes are given as '<alias>.pool' or as ShellQuery(RpcMultiNode([..])).
\* Were a list accepted, it would have to mean the multi-node shell over these URLs in the given order - the harness
\* accepts that answer too (and then leaves the history, whose numbering no longer matches).
ListAsCodedRefused(sa) == sa[1] = "list"
ShellRefused(sa) == sa[1] = "badpool" \/ ListAsCodedRefused(sa)
NewShell(sa) == CASE sa[1] = "alias" -> Shell(<<AliasUrls[sa[2]][1]>>, FALSE)
                  [] sa[1] = "pool" -> Shell(AliasUrls[sa[2]], TRUE)
                  [] sa[1] = "url" -> Shell(<<sa[2]>>, FALSE)
StepShell ==
  /\ pc = "shell"
  /\ LET sa == EffSa IN
     IF ShellRefused(sa) THEN Refuse /\ UNCHANGED <<shells, keys, reqs>>
     ELSE /\ pc' = "key" /\ UNCHANGED <<keys, objs, born, log, reqs>>
          /\ IF sa[1] = "none" THEN UNCHANGED shells /\ pend' = pend
             ELSE IF sa[1] = "obj" THEN UNCHANGED shells /\ pend' = [pend EXCEPT !.sh = 1 + sa[2]]
             ELSE shells' = Append(shells, NewShell(sa)) /\ pend' = [pend EXCEPT !.sh = Len(shells) + 1]

KeyRefused(ka) == ka[1] \in {"unknown", "bad"}
NewKey(ka) == CASE ka[1] = "alias" -> KeyObj(AliasPair[ka[2]], "full")
                [] ka[1] \in {"sk", "file", "dict", "tzalias"} -> KeyObj(ka[2], "full")
                [] ka[1] = "pk" -> KeyObj(ka[2], "pub")
                [] ka[1] = "pkh" -> KeyObj(ka[2], "hash")
StepKey ==
  /\ pc = "key"
  /\ LET ka == EffKa IN
     IF KeyRefused(ka) THEN Refuse /\ UNCHANGED <<shells, keys, reqs>>
     ELSE /\ pc' = "script" /\ UNCHANGED <<shells, objs, born, log, reqs>>
          /\ IF ka[1] = "none" THEN UNCHANGED keys /\ pend' = pend
             ELSE IF ka[1] = "obj" THEN UNCHANGED keys /\ pend' = [pend EXCEPT !.ky = 1 + ka[2]]
             ELSE keys' = Append(keys, NewKey(ka)) /\ pend' = [pend EXCEPT !.ky = Len(keys) + 1]

\* an address without a script: the script is read through the RECEIVER's shell (whatever `shell` argument was given)
StepScript ==
  /\ pc = "script"
  /\ IF pend.addr = 0 THEN pc' = "build" /\ UNCHANGED <<shells, keys, objs, born, log, reqs, pend>>
     ELSE LET s == objs[pend.recv].shell IN
          /\ reqs' = Append(reqs, <<s, Hit(s)>>) /\ shells' = AfterHit(shells, s) /\ UNCHANGED keys
          /\ IF pend.addr \in KnownAddrs THEN pc' = "build" /\ UNCHANGED <<objs, born, log, pend>>
             ELSE Refuse

GwIntended(R) == IF pend.ga = "none" THEN R.gwi ELSE pend.ga          \* what a user of `using` relies on
GwAsCodedDropped == IF pend.ga = "none" THEN "default" ELSE pend.ga   \* DEVIATION: not inherited
KindOf(op) == CASE op = "using" -> "client" [] op \in {"contract", "cusing"} -> "contract" [] op = "opg" -> "opg"
Build ==
  /\ pc = "build"
  /\ LET R == objs[pend.recv]
         o == [kind |-> KindOf(pend.op),
               shell |-> IF pend.sh = 0 THEN R.shell ELSE pend.sh,
               key |-> IF pend.ky = 0 THEN R.key ELSE pend.ky,
               mode |-> IF pend.ma = "none" THEN R.mode ELSE pend.ma,
               gw |-> GwAsCodedDropped, gwi |-> GwIntended(R),
               block |-> IF pend.blk = "none" THEN "head" ELSE pend.blk,      \* documented: "default is `head`"
               addr |-> pend.addr, ctr |-> <<"unset">>, parent |-> pend.recv, via |-> pend]
     IN /\ objs' = Append(objs, o)
        /\ born' = Append(born, Snapshot(o, shells, keys))
        /\ Finish(Len(objs) + 1) /\ UNCHANGED <<shells, keys, reqs>>

\* ----- accessors (state of one context; requests through the object's shell) -----
Acc(o, what, val) == log' = Append(log, <<"acc", o, what, val>>)
Counter(o) ==
  /\ CanCall("counter")
  /\ LET c == objs[o].ctr IN
     IF c[1] = "set"
     THEN /\ objs' = [objs EXCEPT ![o].ctr = <<"set", c[2] + 1>>] /\ Acc(o, <<"counter", 0>>, c[2] + 1) /\ UNCHANGED <<shells, reqs>>
     ELSE LET s == objs[o].shell
              v == NodeCtr(Hit(s), keys[objs[o].key].pair) + 1
          IN /\ objs' = [objs EXCEPT ![o].ctr = <<"set", v>>] /\ Acc(o, <<"counter", 0>>, v)
             /\ reqs' = Append(reqs, <<s, Hit(s)>>) /\ shells' = AfterHit(shells, s)
  /\ UNCHANGED <<keys, born, pc, pend>>
SetCounter(o, n) == /\ CanCall("setctr") /\ objs' = [objs EXCEPT ![o].ctr = <<"set", n>>] /\ Acc(o, <<"setctr", n>>, 0)
                    /\ UNCHANGED <<shells, keys, born, reqs, pc, pend>>
Reset(o) == /\ CanCall("reset") /\ objs' = [objs EXCEPT ![o].ctr = <<"unset">>] /\ Acc(o, <<"reset", 0>>, 0)
            /\ UNCHANGED <<shells, keys, born, reqs, pc, pend>>
\* client.balance(): the account of the client's key at the client's node
Balance(o) ==
  /\ CanCall("balance") /\ objs[o].kind = "client"
  /\ LET s == objs[o].shell IN
       /\ Acc(o, <<"balance", 0>>, NodeBal(Hit(s), keys[objs[o].key].pair))
       /\ reqs' = Append(reqs, <<s, Hit(s)>>) /\ shells' = AfterHit(shells, s)
  /\ UNCHANGED <<keys, objs, born, pc, pend>>
\* client.now(): timestamp of the head + minimal block delay: two requests
Now(o) ==
  /\ CanCall("now") /\ objs[o].kind = "client"
  /\ LET s == objs[o].shell
         sh1 == AfterHit(shells, s)
         u1 == Hit(s)
         u2 == sh1[s].urls[sh1[s].nxt + 1]
     IN /\ Acc(o, <<"now", 0>>, NodeTs(u1) + NodeDelay(u2))
        /\ reqs' = reqs \o <<<<s, u1>>, <<s, u2>>>> /\ shells' = AfterHit(sh1, s)
  /\ UNCHANGED <<keys, objs, born, pc, pend>>

DoUsing == \E c \in 1..Len(objs), sa \in ShellArgs, ka \in KeyArgs, ma \in ModeArgs, ga \in GwArgs : CallUsing(c, sa, ka, ma, ga)
DoContract == \E c \in 1..Len(objs), a \in Addrs : CallContract(c, a)
DoOpg == \E c \in 1..Len(objs) : CallOpg(c)
DoCUsing == \E c \in 1..Len(objs), sa \in ShellArgs, ka \in KeyArgs, b \in BlockArgs, ma \in ModeArgs, ga \in GwArgs : CallCUsing(c, sa, ka, b, ma, ga)
DoCounter == \E o \in 1..Len(objs) : Counter(o)
DoSetCounter == \E o \in 1..Len(objs), n \in SetValues : SetCounter(o, n)
DoReset == \E o \in 1..Len(objs) : Reset(o)
DoBalance == \E o \in 1..Len(objs) : Balance(o)
DoNow == \E o \in 1..Len(objs) : Now(o)
Next == DoUsing \/ DoContract \/ DoOpg \/ DoCUsing \/ StepShell \/ StepKey \/ StepScript \/ Build
        \/ DoCounter \/ DoSetCounter \/ DoReset \/ DoBalance \/ DoNow
Spec == Init /\ [][Next /\ UNCHANGED uni]_vars

\* =========================== what a user relies on ===========================
Max(S) == CHOOSE x \in S : \A y \in S : y <= x
Ix == 1..Len(objs)
Derived == 2..Len(objs)

\* `using` (and every other derivation) never mutates its receiver - nor any other existing object
ReceiverUnchanged ==
  /\ Len(born) = Len(objs)
  /\ \A i \in Ix : Config(objs[i]) = born[i].cfg
  /\ \A i \in Ix : Len(born[i].shells) <= Len(shells) /\ \A s \in 1..Len(born[i].shells) : ShellCfg(shells)[s] = born[i].shells[s]
  /\ \A i \in Ix : Len(born[i].keys) <= Len(keys) /\ \A k \in 1..Len(born[i].keys) : keys[k] = born[i].keys[k]

\* what the argument of the deriving call means, independently of the receiver (decision table)
ShellMeans(sa, s) ==
  CASE sa[1] = "alias" -> shells[s].urls = <<AliasUrls[sa[2]][1]>> /\ ~shells[s].multi
    [] sa[1] = "pool" -> shells[s].urls = AliasUrls[sa[2]] /\ shells[s].multi          \* all nodes, in the given order
    [] sa[1] = "url" -> shells[s].urls = <<sa[2]>> /\ ~shells[s].multi
    [] sa[1] = "obj" -> s = 1 + sa[2]                                                    \* the user's object itself
KeyMeans(ka, k) ==
  CASE ka[1] = "alias" -> keys[k] = KeyObj(AliasPair[ka[2]], "full")
    [] ka[1] \in {"sk", "file", "dict", "tzalias"} -> keys[k] = KeyObj(ka[2], "full")
    [] ka[1] = "pk" -> keys[k] = KeyObj(ka[2], "pub")
    [] ka[1] = "pkh" -> keys[k] = KeyObj(ka[2], "hash")
    [] ka[1] = "obj" -> k = 1 + ka[2]
Ignored(o) == o.via.op = "cusing"       \* documented: shell and key of an interface with an address cannot be changed
\* later arguments override earlier ones field by field; unspecified fields are inherited
FieldwiseOverride ==
  \A i \in Derived :
    LET o == objs[i]
        p == objs[o.parent]
        v == o.via
    IN /\ o.parent < i
       /\ IF v.sa[1] = "none" \/ Ignored(o) THEN o.shell = p.shell ELSE ShellMeans(v.sa, o.shell)
       /\ IF v.ka[1] = "none" \/ Ignored(o) THEN o.key = p.key ELSE KeyMeans(v.ka, o.key)
       /\ o.mode = (IF v.ma = "none" THEN p.mode ELSE v.ma)
       /\ o.gwi = (IF v.ga = "none" THEN p.gwi ELSE v.ga)
       /\ o.block = (IF v.blk = "none" THEN "head" ELSE v.blk)
       /\ o.addr = (CASE v.op = "contract" -> v.addr [] v.op = "cusing" -> p.addr [] OTHER -> 0)
       /\ o.kind = KindOf(v.op)
\* the deviation as it stands
GwDropAsCoded == \A i \in Derived : objs[i].gw = (IF objs[i].via.ga = "none" THEN "default" ELSE objs[i].via.ga)

\* an alias and its URL give equal (not identical) shells
AliasEqualsUrl ==
  \A i \in Derived, j \in Derived :
    LET a == objs[i].via.sa
        b == objs[j].via.sa
    IN (~Ignored(objs[i]) /\ ~Ignored(objs[j]) /\ a[1] = "alias" /\ b[1] = "url" /\ b[2] = AliasUrls[a[2]][1])
       => /\ shells[objs[i].shell].urls = shells[objs[j].shell].urls
          /\ shells[objs[i].shell].multi = shells[objs[j].shell].multi
          /\ objs[i].shell # objs[j].shell

\* objects made by resolving an argument belong to the new object and to the objects derived from it only
Resolved(x) == x[1] \notin {"none", "obj"}
FreshObjects ==
  \A i \in Derived, j \in Ix :
    /\ (i # j /\ ~Ignored(objs[i]) /\ Resolved(objs[i].via.sa) /\ objs[j].shell = objs[i].shell)
         => (j > i /\ objs[objs[j].parent].shell = objs[i].shell /\ (objs[j].via.sa[1] = "none" \/ Ignored(objs[j])))
    /\ (i # j /\ ~Ignored(objs[i]) /\ Resolved(objs[i].via.ka) /\ objs[j].key = objs[i].key)
         => (j > i /\ objs[objs[j].parent].key = objs[i].key /\ (objs[j].via.ka[1] = "none" \/ Ignored(objs[j])))
    /\ (~Ignored(objs[i]) /\ Resolved(objs[i].via.sa)) => objs[i].shell = Len(born[i].shells) /\ objs[i].shell > Len(born[i - 1].shells)
    /\ (~Ignored(objs[i]) /\ Resolved(objs[i].via.ka)) => objs[i].key = Len(born[i].keys) /\ objs[i].key > Len(born[i - 1].keys)

\* a refused call leaves nothing behind; successful ones are numbered in order
RefusedLeavesNothing ==
  LET ok == {k \in 1..Len(log) : log[k][1] = "spawn" /\ log[k][4] # 0} IN
  /\ (pc = "idle") => Len(objs) = 1 + Cardinality(ok)
  /\ \A k \in ok : log[k][4] = 1 + Cardinality({j \in ok : j <= k}) /\ objs[log[k][4]].via = log[k][3]

\* contexts do not share the counter: what get_counter answers depends only on the calls made on the SAME context
IsCtr(k, o) == log[k][1] = "acc" /\ log[k][2] = o /\ log[k][3][1] \in {"counter", "setctr", "reset"}
OwnCounter ==
  \A k \in 1..Len(log) :
    (log[k][1] = "acc" /\ log[k][3][1] = "counter") =>
      LET o == log[k][2]
          prev == {j \in 1..(k - 1) : IsCtr(j, o)}
          last == Max(prev)
      IN IF prev = {} \/ log[last][3][1] = "reset"
         THEN \E n \in 1..Len(shells[objs[o].shell].urls) :
                 log[k][4] = NodeCtr(shells[objs[o].shell].urls[n], keys[objs[o].key].pair) + 1   \* from the node, for the object's key
         ELSE IF log[last][3][1] = "setctr" THEN log[k][4] = log[last][3][2] + 1
         ELSE log[k][4] = log[last][4] + 1
\* a derived object starts with an empty counter cache
DerivedStartsEmpty == pc = "idle" => \A i \in Ix : (\A k \in 1..Len(log) : ~IsCtr(k, i)) => objs[i].ctr = <<"unset">>

\* every connection object serves its URLs in round-robin order, starting with the first (a single node: always that one)
RoundRobin ==
  \A s \in 1..Len(shells) :
    LET mine == SelectSeq(reqs, LAMBDA r : r[1] = s) IN
    /\ \A n \in 1..Len(mine) : mine[n][2] = shells[s].urls[((n - 1) % Len(shells[s].urls)) + 1]
    /\ shells[s].nxt = Len(mine) % Len(shells[s].urls)

\* balance and now are answered by the object's own shell for the object's own key
NodeAnswers ==
  \A k \in 1..Len(log) :
    /\ (log[k][1] = "acc" /\ log[k][3][1] = "balance") =>
         \E n \in 1..Len(shells[objs[log[k][2]].shell].urls) :
            log[k][4] = NodeBal(shells[objs[log[k][2]].shell].urls[n], keys[objs[log[k][2]].key].pair)
    /\ (log[k][1] = "acc" /\ log[k][3][1] = "now") =>
         \E n \in 1..Len(shells[objs[log[k][2]].shell].urls), m \in 1..Len(shells[objs[log[k][2]].shell].urls) :
            log[k][4] = NodeTs(shells[objs[log[k][2]].shell].urls[n]) + NodeDelay(shells[objs[log[k][2]].shell].urls[m])

\* export of every finished call history for the replay (Leg B), in a compact form
Compact(e) == IF e[1] = "spawn" THEN <<"spawn", e[2], <<e[3].op, e[3].sa, e[3].ka, e[3].ma, e[3].ga, e[3].blk, e[3].addr>>, e[4]>> ELSE e
Emit == (pc = "idle" /\ Len(log) = MaxCalls) =>
          PrintT(<<"OUT", uni.name, [i \in Ix |-> Config(objs[i])], ShellCfg(shells), [k \in 1..Len(keys) |-> <<keys[k].pair, keys[k].kind>>],
                   [k \in 1..Len(log) |-> Compact(log[k])], [k \in 1..Len(reqs) |-> reqs[k][2]]>>)
=============================================================================
