---- MODULE BigInt ----
\* Arbitrary-precision integers for TLC: <<neg, mag>>, neg \in BOOLEAN, mag = little-endian base-256
\* digits without trailing zeros (<<>> = 0); zero is always <<FALSE, <<>>>>.
EXTENDS Integers, Sequences
LOCAL B == 256
LOCAL Min2(a, b) == IF a < b THEN a ELSE b
LOCAL Max2(a, b) == IF a > b THEN a ELSE b

\* ---------- magnitudes ----------
RECURSIVE MTrim(_)
MTrim(m) == IF m = <<>> THEN <<>> ELSE IF m[Len(m)] = 0 THEN MTrim(SubSeq(m, 1, Len(m) - 1)) ELSE m
RECURSIVE MFromNat(_)
MFromNat(n) == IF n = 0 THEN <<>> ELSE <<n % B>> \o MFromNat(n \div B)
RECURSIVE MToNat(_)
MToNat(m) == IF m = <<>> THEN 0 ELSE Head(m) + B * MToNat(Tail(m))
RECURSIVE MCmpRev(_, _)   \* compare equal-length magnitudes given most significant first
MCmpRev(a, b) == IF a = <<>> THEN 0 ELSE IF Head(a) < Head(b) THEN -1 ELSE IF Head(a) > Head(b) THEN 1 ELSE MCmpRev(Tail(a), Tail(b))
LOCAL Rev(s) == [i \in 1..Len(s) |-> s[Len(s) - i + 1]]
MCmp(a, b) == IF Len(a) < Len(b) THEN -1 ELSE IF Len(a) > Len(b) THEN 1 ELSE MCmpRev(Rev(a), Rev(b))
RECURSIVE MAddC(_, _, _)
MAddC(a, b, c) ==
  IF a = <<>> /\ b = <<>> THEN (IF c = 0 THEN <<>> ELSE <<c>>)
  ELSE LET x == IF a = <<>> THEN 0 ELSE Head(a)
           y == IF b = <<>> THEN 0 ELSE Head(b)
           s == x + y + c
       IN <<s % B>> \o MAddC(IF a = <<>> THEN <<>> ELSE Tail(a), IF b = <<>> THEN <<>> ELSE Tail(b), s \div B)
MAdd(a, b) == MAddC(a, b, 0)
RECURSIVE MSubB(_, _, _)  \* a >= b
MSubB(a, b, bw) ==
  IF a = <<>> THEN <<>>
  ELSE LET y == IF b = <<>> THEN 0 ELSE Head(b)
           d == Head(a) - y - bw
       IN <<IF d < 0 THEN d + B ELSE d>> \o MSubB(Tail(a), IF b = <<>> THEN <<>> ELSE Tail(b), IF d < 0 THEN 1 ELSE 0)
MSub(a, b) == MTrim(MSubB(a, b, 0))
RECURSIVE MMulSmallC(_, _, _)
MMulSmallC(a, k, c) ==
  IF a = <<>> THEN (IF c = 0 THEN <<>> ELSE <<c % B>> \o MMulSmallC(<<>>, k, c \div B))
  ELSE LET s == Head(a) * k + c IN <<s % B>> \o MMulSmallC(Tail(a), k, s \div B)
MMulSmall(a, k) == IF k = 0 \/ a = <<>> THEN <<>> ELSE MMulSmallC(a, k, 0)
RECURSIVE MMul(_, _)
MMul(a, b) == IF b = <<>> \/ a = <<>> THEN <<>>
              ELSE LET r == MMul(a, Tail(b)) IN MAdd(MMulSmall(a, Head(b)), IF r = <<>> THEN <<>> ELSE <<0>> \o r)
\* division by a small k (1..2^15): returns <<quotient, remainder>>
RECURSIVE MDivSmallR(_, _, _)
MDivSmallR(rev, k, r) == IF rev = <<>> THEN <<<<>>, r>>
  ELSE LET cur == r * B + Head(rev)
           rest == MDivSmallR(Tail(rev), k, cur % k)
       IN <<Append(rest[1], cur \div k), rest[2]>>
MDivSmall(a, k) == LET r == MDivSmallR(Rev(a), k, 0) IN <<MTrim(r[1]), r[2]>>
\* long division: schoolbook base 256, quotient digit by bisection
RECURSIVE QDigit(_, _, _, _)
QDigit(rem, b, lo, hi) ==   \* largest d in lo..hi with d*b <= rem
  IF lo = hi THEN lo
  ELSE LET mid == (lo + hi + 1) \div 2 IN
       IF MCmp(MMulSmall(b, mid), rem) <= 0 THEN QDigit(rem, b, mid, hi) ELSE QDigit(rem, b, lo, mid - 1)
RECURSIVE MDivModR(_, _, _)
MDivModR(rev, b, rem) ==    \* rev: dividend digits, most significant first; returns <<quotient digits (LE), remainder>>
  IF rev = <<>> THEN <<<<>>, rem>>
  ELSE LET cur == MTrim(<<Head(rev)>> \o rem)
           d == QDigit(cur, b, 0, B - 1)
           nr == MSub(cur, MMulSmall(b, d))
           rest == MDivModR(Tail(rev), b, nr)
       IN <<Append(rest[1], d), rest[2]>>
MDivMod(a, b) == LET r == MDivModR(Rev(a), b, <<>>) IN <<MTrim(r[1]), r[2]>>      \* b # <<>>
\* bits
RECURSIVE LimbBits(_, _)
LimbBits(x, k) == IF k = 0 THEN <<>> ELSE <<x % 2>> \o LimbBits(x \div 2, k - 1)
RECURSIVE MBitLenTop(_)
MBitLenTop(x) == IF x = 0 THEN 0 ELSE 1 + MBitLenTop(x \div 2)
MBitLen(m) == IF m = <<>> THEN 0 ELSE 8 * (Len(m) - 1) + MBitLenTop(m[Len(m)])
RECURSIVE Pow2Small(_)
Pow2Small(k) == IF k = 0 THEN 1 ELSE 2 * Pow2Small(k - 1)
MShl(m, s) == IF m = <<>> THEN <<>> ELSE [i \in 1..(s \div 8) |-> 0] \o MMulSmall(m, Pow2Small(s % 8))
MShr(m, s) == LET d == IF s \div 8 >= Len(m) THEN <<>> ELSE SubSeq(m, (s \div 8) + 1, Len(m)) IN MDivSmall(d, Pow2Small(s % 8))[1]
\* limbwise boolean ops on equal-length digit strings (caller pads)
LOCAL Pad(m, n) == m \o [i \in 1..(n - Len(m)) |-> 0]
RECURSIVE LimbOp(_, _, _, _)
LimbOp(op, x, y, k) == IF k = 0 THEN 0
  ELSE LET a == x % 2 b == y % 2
           z == CASE op = "and" -> IF a = 1 /\ b = 1 THEN 1 ELSE 0
                  [] op = "or" -> IF a = 1 \/ b = 1 THEN 1 ELSE 0
                  [] op = "xor" -> IF a # b THEN 1 ELSE 0
       IN z + 2 * LimbOp(op, x \div 2, y \div 2, k - 1)
MBitOp(op, a, b) == LET n == Max2(Len(a), Len(b)) pa == Pad(a, n) pb == Pad(b, n) IN
                    MTrim([i \in 1..n |-> LimbOp(op, pa[i], pb[i], 8)])

\* ---------- signed ----------
Zero == <<FALSE, <<>>>>
Norm(neg, m) == LET t == MTrim(m) IN IF t = <<>> THEN Zero ELSE <<neg, t>>
FromInt(n) == IF n < 0 THEN <<TRUE, MFromNat(-n)>> ELSE <<FALSE, MFromNat(n)>>
ToInt(x) == IF x[1] THEN -MToNat(x[2]) ELSE MToNat(x[2])          \* only for small values
IsNeg(x) == x[1]
Neg(x) == IF x[2] = <<>> THEN Zero ELSE <<~x[1], x[2]>>
Abs(x) == <<FALSE, x[2]>>
Cmp(x, y) == IF x[1] /\ ~y[1] THEN -1 ELSE IF ~x[1] /\ y[1] THEN 1
             ELSE IF x[1] THEN MCmp(y[2], x[2]) ELSE MCmp(x[2], y[2])
Add(x, y) == IF x[1] = y[1] THEN Norm(x[1], MAdd(x[2], y[2]))
             ELSE IF MCmp(x[2], y[2]) >= 0 THEN Norm(x[1], MSub(x[2], y[2])) ELSE Norm(y[1], MSub(y[2], x[2]))
Sub(x, y) == Add(x, Neg(y))
Mul(x, y) == Norm(x[1] # y[1], MMul(x[2], y[2]))
\* Euclidean division (Michelson EDIV): x = q*y + r, 0 <= r < |y|; y # 0
EDiv(x, y) ==
  LET d == MDivMod(x[2], y[2])            \* on magnitudes
      q0 == d[1] r0 == d[2] IN
  IF ~x[1] THEN <<Norm(y[1], q0), Norm(FALSE, r0)>>
  ELSE IF r0 = <<>> THEN <<Norm(~y[1], q0), Zero>>
  ELSE <<Norm(~y[1], MAdd(q0, <<1>>)), Norm(FALSE, MSub(y[2], r0))>>
Shl(x, s) == Norm(x[1], MShl(x[2], s))        \* naturals in Michelson
Shr(x, s) == Norm(x[1], MShr(x[2], s))
BitLen(x) == MBitLen(x[2])
\* two's complement helpers: for negative x, ~(|x|-1) over n limbs
LOCAL Inv(m, n) == [i \in 1..n |-> 255 - Pad(m, n)[i]]
LOCAL Twos(x, n) == IF x[1] THEN Inv(MSub(x[2], <<1>>), n) ELSE Pad(x[2], n)
LOCAL FromTwos(d, neg) == IF neg THEN Norm(TRUE, MAdd(MTrim(Inv(d, Len(d))), <<1>>)) ELSE Norm(FALSE, d)
BitOp(op, x, y) ==
  LET n == Max2(Len(x[2]), Len(y[2])) + 1
      dx == Twos(x, n) dy == Twos(y, n)
      d == [i \in 1..n |-> LimbOp(op, dx[i], dy[i], 8)]
      neg == CASE op = "and" -> x[1] /\ y[1] [] op = "or" -> x[1] \/ y[1] [] op = "xor" -> x[1] # y[1]
  IN FromTwos(d, neg)
Not(x) == Sub(Neg(x), FromInt(1))              \* ~x = -x - 1
\* minimal big-endian encodings (Michelson BYTES / NAT / INT)
NatToBytes(x) == Rev(x[2])
BytesToNat(b) == Norm(FALSE, Rev(b))
IntToBytes(x) ==       \* minimal two's complement, big endian; 0 -> <<>>
  IF x[2] = <<>> THEN <<>>
  ELSE IF ~x[1] THEN LET m == x[2] IN Rev(IF m[Len(m)] >= 128 THEN m \o <<0>> ELSE m)
  ELSE LET m1 == MSub(x[2], <<1>>)                    \* -x-1 >= 0
           n == Max2(Len(m1), 1)
           d == Inv(m1, n) IN
       Rev(IF d[n] < 128 THEN d \o <<255>> ELSE d)
BytesToInt(b) ==
  IF b = <<>> THEN Zero
  ELSE LET d == Rev(b) IN IF d[Len(d)] >= 128 THEN FromTwos(d, TRUE) ELSE Norm(FALSE, d)
\* Zarith
RECURSIVE MagBits(_)
MagBits(m) == IF m = <<>> THEN <<>> ELSE LimbBits(Head(m), 8) \o MagBits(Tail(m))
RECURSIVE TrimBits(_)
TrimBits(b) == IF b = <<>> THEN <<>> ELSE IF b[Len(b)] = 0 THEN TrimBits(SubSeq(b, 1, Len(b) - 1)) ELSE b
RECURSIVE BitsVal(_)
BitsVal(b) == IF b = <<>> THEN 0 ELSE Head(b) + 2 * BitsVal(Tail(b))
LOCAL TakeS(s, n) == SubSeq(s, 1, Min2(n, Len(s)))
LOCAL DropS(s, n) == IF n >= Len(s) THEN <<>> ELSE SubSeq(s, n + 1, Len(s))
RECURSIVE Z7(_)
Z7(bits) == IF bits = <<>> THEN <<>> ELSE LET rest == DropS(bits, 7) IN <<BitsVal(TakeS(bits, 7)) + (IF rest = <<>> THEN 0 ELSE 128)>> \o Z7(rest)
ZarithZ(x) == LET bits == TrimBits(MagBits(x[2])) rest == DropS(bits, 6) IN
              <<BitsVal(TakeS(bits, 6)) + (IF x[1] THEN 64 ELSE 0) + (IF rest = <<>> THEN 0 ELSE 128)>> \o Z7(rest)
ZarithN(x) == LET bits == TrimBits(MagBits(x[2])) IN IF bits = <<>> THEN <<0>> ELSE Z7(bits)
====
