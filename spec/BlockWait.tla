------------------------------ MODULE BlockWait ------------------------------
(* ShellQuery.wait_blocks (src/pytezos/rpc/shell.py): iterate over future blocks by polling
   the head, one action per poll.  Not tied to a listed property - part of the growth of the
   specification beyond the 33 properties (block waiting, reorganisations, timeout).

   Between two polls the node may keep its head, bake the next block, replace the head by
   another block of the same level, or reorganise one level back.  The client yields every
   head it has not seen as current, stops once the current block's level reached the start
   level + max_blocks, and gives up with TimeoutError after block_timeout consecutive polls
   that still show the current block. *)
EXTENDS Integers, Sequences, TLC
CONSTANTS MaxBlocks, BlockTimeout, MaxPolls, YieldCurrent, StartLevel
VARIABLES head,      \* <<id, level>> of the node's head
          nextId,    \* fresh block identifier
          cur,       \* the block the client currently stands on
          delay,     \* consecutive polls that showed `cur`
          pc,        \* "poll" | "done" | "timeout"
          yielded,   \* sequence of block ids yielded so far
          hist       \* node behaviour observed at each poll
vars == <<head, nextId, cur, delay, pc, yielded, hist>>
MaxLevel == StartLevel + MaxBlocks
Init == /\ head = <<1, StartLevel>> /\ nextId = 2 /\ cur = <<1, StartLevel>> /\ delay = 0
        /\ pc = (IF StartLevel < MaxLevel THEN "poll" ELSE "done")
        /\ yielded = (IF YieldCurrent THEN <<1>> ELSE <<>>) /\ hist = <<>>
NewHead(k) == CASE k = "same" -> head
                [] k = "next" -> <<nextId, head[2] + 1>>
                [] k = "reorg" -> <<nextId, head[2]>>
                [] k = "back" -> <<nextId, head[2] - 1>>
Poll(k) ==
  /\ pc = "poll" /\ Len(hist) < MaxPolls
  /\ k = "back" => head[2] > StartLevel
  /\ LET h == NewHead(k) IN
       /\ head' = h /\ nextId' = (IF k = "same" THEN nextId ELSE nextId + 1)
       /\ hist' = Append(hist, k)
       /\ IF h[1] = cur[1]
          THEN /\ delay' = delay + 1
               /\ pc' = (IF delay + 1 = BlockTimeout THEN "timeout" ELSE "poll")
               /\ UNCHANGED <<cur, yielded>>
          ELSE /\ yielded' = Append(yielded, h[1]) /\ cur' = h /\ delay' = 0
               /\ pc' = (IF h[2] < MaxLevel THEN "poll" ELSE "done")
Next == \E k \in {"same", "next", "reorg", "back"} : Poll(k)
Spec == Init /\ [][Next]_vars

\* ----- properties -----
NoRepeat == \A i \in 1..Len(yielded) - 1 : yielded[i] # yielded[i + 1]
DoneMeansLevelReached == pc = "done" => cur[2] >= MaxLevel
TimeoutOnlyAfterSilence == pc = "timeout" => delay = BlockTimeout /\ Len(hist) >= BlockTimeout
                             /\ \A i \in (Len(hist) - BlockTimeout + 1)..Len(hist) : hist[i] = "same"
FollowsHead == pc # "timeout" /\ hist # <<>> => cur = head        \* the client stands on the node's head after every poll
YieldCount == Len(yielded) = (IF YieldCurrent THEN 1 ELSE 0) + Len(SelectSeq(hist, LAMBDA k : k # "same"))
NeverStuckBeforeLimit == pc = "poll" => cur[2] < MaxLevel /\ delay < BlockTimeout
=============================================================================
