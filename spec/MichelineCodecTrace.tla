------------------------ MODULE MichelineCodecTrace ------------------------
(* Leg C for C05: byte strings produced by pytezos' forge_micheline for real Micheline trees (the
   mainnet contract scripts shipped with the repository's contract tests) are validated against
   MichelineCodec: the recorded bytes must be exactly Forge(node), and the strict decoder must
   accept them and return the node.  Cases come from a JSON file
     [ {"id": "...", "node": <tuple encoding of MichelineCodec>, "bytes": [..]}, ... ].
   Every case is an initial state of its own (so the cases are checked by all workers in parallel);
   a case that does not conform is reported with PrintT(<<"REJECT", ...>>) and the run continues,
   a conforming one with PrintT(<<"OUT", id, length>>); the harness requires one line per case. *)
EXTENDS Integers, Sequences, TLC, Json, IOUtils
VARIABLES i, verdict
M == INSTANCE MichelineCodec WITH Mags <- {}, TagsA <- {}, TagsB <- {}, Depth <- 0, TopTags <- {}, BadPrimTags <- {}, ByteSpan <- 0,
                                  node <- <<>>, bytes <- <<>>, dec <- <<>>, muts <- {}, pc <- ""

Cases == JsonDeserialize(IOEnv.TRACE_FILE)

FirstDiff(a, b) == IF \E k \in 1..M!Min2(Len(a), Len(b)) : a[k] # b[k]
                   THEN CHOOSE k \in 1..M!Min2(Len(a), Len(b)) : a[k] # b[k] /\ \A j \in 1..(k - 1) : a[j] = b[j]
                   ELSE M!Min2(Len(a), Len(b)) + 1
Check(c) ==
  LET want == M!Forge(c.node) IN
  IF want # c.bytes
  THEN <<"REJECT", c.id, "forge", Len(want), Len(c.bytes), FirstDiff(want, c.bytes)>>
  ELSE LET back == M!Unforge(c.bytes) IN
       IF back # <<TRUE, c.node, FALSE>>
       THEN <<"REJECT", c.id, "unforge", back[1], back[3], 0>>
       ELSE <<"OUT", c.id, Len(c.bytes)>>

Init == i \in 1..Len(Cases) /\ verdict = <<"pending">>
Next == verdict = <<"pending">> /\ verdict' = Check(Cases[i]) /\ PrintT(verdict') /\ i' = i
Spec == Init /\ [][Next]_<<i, verdict>>
=============================================================================
